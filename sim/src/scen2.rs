//! Fault enumeration (C11, C12), legality table in random states (C19), ageing twin (C17).

use crate::app::*;
use crate::broker;
use crate::clock;
use crate::codec::{Packet, Prop};
use crate::invalid::{self, ReqCtx};
use crate::run::{self, with_session, ConnEnd};
use crate::scen::{absorb, second_world};
use crate::util::{mix, Tape};
use crate::world::{self, with, Phase, World};
use minimq::QoS;

// ------------------------------------------------------------------ fault enumeration

const OPS: u64 = 10; // poll recv drive pub0 pub1 pub2 sub unsub disconnect connect
const IO_IDX: u64 = 28;
const FAULTS: u64 = 9;

/// Fault kinds: 0-2 error kinds, 3 EOF, 4 broker DISCONNECT, 5 malformed packet, 6 cancel at this
/// call, 7 drop the handle at this call, 8 forget the handle at this call.
/// case index -> (pre-state, operation, I/O call index, fault kind). The pre-state is the
/// slowest-varying digit so that a longer enumeration adds pre-states, not repetitions.
fn decode(extra: u64) -> (u64, u64, u64, u64) {
    let fault = extra % FAULTS;
    let idx = (extra / FAULTS) % IO_IDX;
    let op = (extra / (FAULTS * IO_IDX)) % OPS;
    let pre = extra / (FAULTS * IO_IDX * OPS);
    (pre, op, idx, fault)
}

pub fn fault_enum(kind: u8, extra: u64) {
    let (pre, op, idx, fault) = decode(extra);
    // the pre-state program is driven by a tape that depends on `pre` only
    with(|w| {
        w.tape = Tape::generate(mix(0xFA17, pre));
        // consume the same draws gen_cfg made, so that the program continues from there
        let _ = run::gen_cfg(&mut w.tape, world::Profile::General);
        w.twin_mode = false;
    });
    let cfg = with(|w| w.cfg.clone());
    with_session(&cfg, |session| {
        let max_conns = cfg.max_conns;
        let mut steps = cfg.max_steps;
        // ---- prefix: reach a pre-state, ending with a live connection if possible
        let mut live_conn = None;
        for ci in 0..max_conns {
            match do_connect(session, true) {
                ConnectOutcome::Failed(_) => continue,
                ConnectOutcome::Up(mut conn) => {
                    let end = run::run_connection(&mut conn, &mut steps);
                    // (a connection the simulated application has given up - after a cancelled
                    // QoS 0 publish, which is documented as not cancel-safe - is not used again)
                    if matches!(end, ConnEnd::OutOfSteps) || (ci + 1 == max_conns && !matches!(end, ConnEnd::Drop | ConnEnd::Forget)) {
                        if conn.is_connected() {
                            live_conn = Some(());
                            // ---- the operation under test, with the fault at I/O call `idx`
                            if op != 9 {
                                let forced = inject_and_run(&mut conn, op, idx, fault, kind);
                                if forced == Some(8) {
                                    with(|w| close_conn(w, "fault-enum: handle forgotten at the fault point"));
                                    core::mem::forget(conn);
                                } else {
                                    with(|w| close_conn(w, "fault-enum: end of connection"));
                                    drop(conn);
                                }
                            } else {
                                with(|w| close_conn(w, "fault-enum: dropped before connect test"));
                                drop(conn);
                            }
                            break;
                        }
                    }
                    match end {
                        ConnEnd::Forget => {
                            with(|w| close_conn(w, "mem::forget"));
                            core::mem::forget(conn);
                        }
                        _ => {
                            with(|w| close_conn(w, "dropped"));
                            drop(conn);
                        }
                    }
                }
            }
        }
        let _ = live_conn;
        if op == 9 {
            // fault inside the handshake itself
            with(|w| {
                w.inject = Some((idx, fault as u8));
                w.inject_armed = true;
                w.io_calls_in_op = 0;
                w.probe("fault_enum_connect_case");
            });
            if let ConnectOutcome::Up(mut conn) = do_connect(session, true) {
                with(|w| w.inject_armed = false);
                let fired = with(|w| w.inject.is_none());
                if fired && !conn.is_connected() {
                    dead_handle_probe(&mut conn);
                }
                with(|w| close_conn(w, "fault-enum: after connect"));
                drop(conn);
            }
            with(|w| {
                w.inject_armed = false;
                w.inject = None;
                w.force_cancel = None;
            });
        }
        // ---- C12: whatever happened, the session can be reconnected and is usable
        if !with(|w| w.cut) {
            run::final_phase(session, false);
        }
        check_handles(session);
    });
    run::final_wire_checks();
}

fn inject_and_run(conn: &mut Conn<'_, '_>, op: u64, idx: u64, fault: u64, kind: u8) -> Option<u8> {
    with(|w| {
        w.inject = Some((idx, fault as u8));
        w.inject_armed = true;
        w.io_calls_in_op = 0;
        w.probe("fault_enum_case");
    });
    let res = match op {
        0 => do_wait(conn, Wait::Poll, None),
        1 => do_wait(conn, Wait::Recv, None),
        2 => do_wait(conn, Wait::Drive, None),
        3..=5 => {
            let spec = with(|w| gen_publish(w, (op - 3) as u8));
            do_publish(conn, &spec)
        }
        6 => {
            let spec = with(gen_subscribe);
            do_subscribe(conn, &spec)
        }
        7 => {
            let spec = with(gen_unsubscribe);
            do_unsubscribe(conn, &spec)
        }
        _ => do_disconnect(conn, &DiscSpec { reason: None, props: None }),
    };
    let fired = with(|w| {
        w.inject_armed = false;
        let fired = w.inject.is_none();
        w.inject = None;
        if fired {
            w.probe("fault_enum_fault_fired");
        }
        fired
    });
    let _ = (fired, kind);
    let forced = with(|w| w.force_cancel.take());
    if matches!(forced, Some(7) | Some(8)) {
        // the application drops / forgets the handle at this very point
        return forced;
    }
    let was_disconnect = op == 8 && res != Res::Cancelled && !matches!(res, Res::InvalidRequest | Res::PacketTooLarge | Res::BufferTooSmall);
    if with(|w| std::mem::replace(&mut w.qos0_cancelled, false)) {
        return forced;
    }
    if res.is_fatal() || was_disconnect {
        // C11: every operation, twice over, on the dead handle
        dead_handle_probe(conn);
        dead_handle_probe(conn);
    } else if !conn.is_connected() {
        // (after disconnect() - op 8 - the handle may be closed whatever it returned)
        let ack_pending = with(|w| {
            let c = &w.conns[w.cur];
            c.max_packet_size.is_some_and(|m| m < 6) && (!c.owed_acks.is_empty() || !c.carry_acks.is_empty())
        });
        let ok = matches!(res, Res::PacketTooLarge) && (op <= 2 || ack_pending) || op == 8;
        if !ok {
            with(|w| {
                w.violate(
                    "C11",
                    format!("died-silently/after={}", res.name()),
                    format!("handle is dead after a non-fatal result {}", res.name()),
                )
            });
        }
        dead_handle_probe(conn);
    } else if res == Res::Cancelled {
        // a cancelled cancel-safe operation: keep driving on the same handle
        let _ = do_wait(conn, Wait::Poll, None);
    }
    forced
}

// ------------------------------------------------------------------ C19 table

pub fn table_cases() -> u64 {
    4 * crate::codec::ALL_PROP_IDS.iter().map(|id| invalid::samples(*id).len() as u64).sum::<u64>()
}

pub fn table(extra: u64) {
    let n_cases: u64 = 4 * crate::codec::ALL_PROP_IDS.iter().map(|id| invalid::samples(*id).len() as u64).sum::<u64>();
    let pre = extra / n_cases;
    let entry = extra % n_cases;
    // (context, property sample) from the entry index
    let mut cases: Vec<(ReqCtx, Prop)> = Vec::new();
    for ctx in [ReqCtx::Publish, ReqCtx::Subscribe, ReqCtx::Unsubscribe, ReqCtx::Disconnect] {
        for id in crate::codec::ALL_PROP_IDS {
            for p in invalid::samples(id) {
                cases.push((ctx, p));
            }
        }
    }
    let (ctx, prop) = cases[(entry as usize) % cases.len()].clone();
    with(|w| {
        w.tape = Tape::generate(mix(0xFA17, pre));
        let _ = run::gen_cfg(&mut w.tape, world::Profile::General);
        invalid::will_table(w);
    });
    let cfg = with(|w| w.cfg.clone());
    with_session(&cfg, |session| {
        let mut steps = cfg.max_steps;
        for ci in 0..cfg.max_conns {
            match do_connect(session, true) {
                ConnectOutcome::Failed(_) => continue,
                ConnectOutcome::Up(mut conn) => {
                    let end = run::run_connection(&mut conn, &mut steps);
                    if (matches!(end, ConnEnd::OutOfSteps) || (ci + 1 == cfg.max_conns && !matches!(end, ConnEnd::Drop | ConnEnd::Forget))) && conn.is_connected() {
                        with(|w| w.probe("table_case"));
                        let _ = invalid::forced_probe(&mut conn, ctx, &prop);
                        // a cancelled QoS 0 publish is documented as not cancel-safe: the
                        // application gives the connection up
                        if !with(|w| std::mem::replace(&mut w.qos0_cancelled, false)) {
                            let _ = do_wait(&mut conn, Wait::Drive, None);
                        }
                    }
                    with(|w| close_conn(w, "table: end"));
                    drop(conn);
                    if matches!(end, ConnEnd::OutOfSteps) {
                        break;
                    }
                }
            }
        }
        if !with(|w| w.cut) {
            run::final_phase(session, false);
        }
    });
    run::final_wire_checks();
}

// ------------------------------------------------------------------ C17 ageing twin

#[derive(Debug, PartialEq, Eq, Clone)]
pub struct Battery {
    pub max_q1_payload: i64,
    pub max_q0_payload: i64,
    pub inflight_empty: u32,
    pub inflight_small: u32,
    pub inflight_sixteenth: u32,
    pub max_filters: u32,
}

fn probe_pub(conn: &mut Conn<'_, '_>, qos: u8, len: usize) -> Res {
    let tag = with(|w| {
        let t = w.next_tag;
        w.next_tag += 1;
        t
    });
    let spec = PubSpec { tag, topic: format!("t{tag:07}"), payload: vec![0x5A; len], qos, retain: false, props: vec![], correlate: None, payload_fails: false };
    do_publish(conn, &spec)
}

fn settle(conn: &mut Conn<'_, '_>) {
    let opts = ExecOpts { cancellable: true, idle_cancel: true, budget_us: None, timer_is_idle: true };
    for _ in 0..64 {
        if do_wait(conn, Wait::Poll, Some(opts)) == Res::Cancelled {
            break;
        }
    }
}

/// Largest payload for which a publish at `qos` is accepted (bisection; the session is drained
/// after every probe so that each starts from the quiescent state).
fn max_payload(conn: &mut Conn<'_, '_>, qos: u8, hi: usize) -> i64 {
    let accepted = |r: &Res| matches!(r, Res::OkOp | Res::Ok);
    let (mut lo, mut hi) = (-1i64, hi as i64 + 1); // lo accepted (or -1), hi refused
    while hi - lo > 1 {
        let mid = (lo + hi) / 2;
        let r = probe_pub(conn, qos, mid as usize);
        settle(conn);
        if accepted(&r) {
            lo = mid;
        } else {
            hi = mid;
        }
    }
    lo
}

fn count_inflight(conn: &mut Conn<'_, '_>, len: usize) -> u32 {
    with(|w| w.hold_acks = true);
    let mut n = 0;
    for _ in 0..20 {
        let r = probe_pub(conn, 1, len);
        if r != Res::OkOp {
            break;
        }
        n += 1;
    }
    with(|w| {
        w.hold_acks = false;
        let cur = w.cur;
        broker::release_withheld(w, cur);
    });
    settle(conn);
    n
}

fn max_filters(conn: &mut Conn<'_, '_>) -> u32 {
    let mut best = 0;
    let rx = with(|w| w.cfg.rx_len);
    for n in [1u32, 2, 3, 5, 8, 13, 21, 34, 55, 89] {
        if n as usize + 8 > rx {
            break; // the SUBACK would not fit the client's receive buffer
        }
        let tag = with(|w| {
            let t = w.next_tag;
            w.next_tag += 1;
            t
        });
        let filters = (0..n).map(|i| crate::codec::SubFilter { filter: format!("f{tag:07}/{i}"), max_qos: 0, no_local: false, rap: false, retain_handling: 0 }).collect();
        let r = do_subscribe(conn, &SubSpec { tag, filters, props: vec![] });
        settle(conn);
        if r == Res::OkOp {
            best = n;
        } else {
            break;
        }
    }
    best
}

fn battery(conn: &mut Conn<'_, '_>) -> Battery {
    let tx = with(|w| w.cfg.tx_len);
    let b = Battery {
        max_q1_payload: max_payload(conn, 1, tx),
        max_q0_payload: max_payload(conn, 0, tx),
        inflight_empty: count_inflight(conn, 0),
        inflight_small: count_inflight(conn, 10),
        inflight_sixteenth: count_inflight(conn, tx / 16),
        max_filters: max_filters(conn),
    };
    with(|w| w.log(|| format!("probe battery: {:?}", b)));
    b
}

fn quiescent_battery(session: &mut minimq::Session<'_>) -> Option<Battery> {
    with(|w| w.benign = true);
    for attempt in 0..3 {
        if let ConnectOutcome::Up(mut conn) = do_connect(session, false) {
            let ok = run::benign_drain(&mut conn);
            let all_done = with(|w| {
                let ep = w.epoch;
                !w.ids_ambiguous && !w.reqs.iter().any(|r| r.epoch == ep && !r.invalidated && r.accept != world::Accept::NotAccepted && r.qos > 0 && !matches!(r.phase, Phase::Done(_)))
            });
            // "After everything has been acknowledged": the ledger decides that, not the session.
            // A session that still is not quiescent on the third prompt connection although every
            // accepted request has had its final acknowledgement is probed all the same - what it
            // still holds shows up as lost capacity.
            let settled = ok && conn.session().is_publish_quiescent() && conn.can_publish(QoS::AtLeastOnce);
            if all_done && conn.is_connected() && (settled || attempt == 2) {
                if !settled {
                    with(|w| w.probe("battery_on_session_that_does_not_quiesce"));
                }
                let b = battery(&mut conn);
                with(|w| close_conn(w, "battery done"));
                return Some(b);
            }
            with(|w| close_conn(w, "not quiescent"));
        } else {
            return None;
        }
    }
    None
}

pub fn age_twin() {
    let cfg = with(|w| w.cfg.clone());
    // ---- aged session: a long random history, then everything acknowledged
    let aged = with_session(&cfg, |session| {
        let mut steps = cfg.max_steps;
        for _ in 0..cfg.max_conns {
            if steps == 0 || with(|w| w.cut) {
                break;
            }
            if let ConnectOutcome::Up(mut conn) = do_connect(session, true) {
                let end = run::run_connection(&mut conn, &mut steps);
                match end {
                    ConnEnd::Forget => {
                        with(|w| close_conn(w, "mem::forget"));
                        core::mem::forget(conn);
                    }
                    _ => {
                        with(|w| close_conn(w, "dropped"));
                        drop(conn);
                    }
                }
            }
        }
        if with(|w| w.cut) {
            return None;
        }
        quiescent_battery(session)
    });
    let Some(aged) = aged else {
        with(|w| w.probe("aged_session_not_comparable"));
        return;
    };
    // ---- brand-new session, same configuration, same (benign) broker
    let vals = with(|w| w.tape.vals.clone());
    let next_tag = with(|w| w.next_tag);
    let first = second_world(vals, None);
    with(|w| {
        w.twin_mode = false;
        w.benign = true;
        w.next_tag = next_tag;
    });
    clock::reset();
    let fresh = with_session(&cfg, |session| quiescent_battery(session));
    absorb(first);
    with(|w| {
        w.probe("aged_probe_battery");
        match fresh {
            None => w.probe("fresh_session_not_comparable"),
            Some(fresh) => {
                if fresh != aged {
                    let what = if fresh.max_q1_payload != aged.max_q1_payload {
                        "max-qos1-payload"
                    } else if fresh.max_q0_payload != aged.max_q0_payload {
                        "max-qos0-payload"
                    } else if fresh.max_filters != aged.max_filters {
                        "max-filters"
                    } else {
                        "inflight-count"
                    };
                    w.violate(
                        "C17",
                        format!("capacity-differs/{what}"),
                        format!("aged session accepts {:?}, a brand-new one {:?}", aged, fresh),
                    );
                }
            }
        }
    });
    let _ = Packet::PingReq;
}
