//! minimq deterministic simulator: batch runner, minimiser, replay, evidence writer.
//!
//! Exit status: 0 = property held on everything explored (known findings listed),
//! 1 = violation (VIOLATION line + replay file), 2 = harness error.

mod app;
mod broker;
mod clock;
mod codec;
mod invalid;
mod io;
mod plan;
mod run;
mod scen;
mod scen2;
mod scen3;
mod util;
mod world;

use serde_json::{json, Value};
use std::cell::RefCell;
use std::collections::{BTreeMap, BTreeSet};
use std::panic::{catch_unwind, AssertUnwindSafe};
use std::time::Instant;
use util::{mix, Tape};
use world::{Profile, Stats, Violation, World};

thread_local! {
    static PANIC_INFO: RefCell<Option<(String, String)>> = const { RefCell::new(None) };
    /// replay mode: the recorded I/O-schedule tape of a twin scenario
    static REPLAY_SCHED: RefCell<Option<Vec<u32>>> = const { RefCell::new(None) };
}

/// The schedule tape of a twin run: replayed if a recording is present, else generated.
pub fn make_sched(seed: u64) -> Tape {
    match REPLAY_SCHED.with(|r| r.borrow().clone()) {
        Some(vals) => Tape::replay(vals, 0),
        None => Tape::generate(mix(seed, 0x5CED)),
    }
}

#[derive(Copy, Clone, Debug, PartialEq, Eq, PartialOrd, Ord)]
pub enum Scenario {
    Program(Profile),
    /// C08: short byte strings / mutated packets into a live session
    Bytes(u8),
    /// C11 / C12: fault enumeration over every I/O call of prepared scenarios
    FaultEnum(u8),
    /// C13: cancellation twin
    CancelTwin,
    /// C15: fragmentation twin / exhaustive chunkings
    FragTwin(u8),
    /// C17: aged session vs. fresh twin probe battery
    AgeTwin,
    /// C19: full legality table in random session states
    Table,
}

impl Scenario {
    pub fn name(&self) -> String {
        format!("{:?}", self)
    }
    pub fn parse(s: &str) -> Option<Scenario> {
        let profs = [
            Profile::General,
            Profile::Qos1,
            Profile::Qos2,
            Profile::Inbound,
            Profile::Sessions,
            Profile::Quota,
            Profile::IdWrap,
            Profile::Limits,
            Profile::Timing,
            Profile::Aging,
            Profile::Invalid,
            Profile::Twin,
        ];
        for p in profs {
            if s == format!("Program({:?})", p) {
                return Some(Scenario::Program(p));
            }
        }
        for k in 0..8u8 {
            if s == format!("Bytes({k})") {
                return Some(Scenario::Bytes(k));
            }
            if s == format!("FaultEnum({k})") {
                return Some(Scenario::FaultEnum(k));
            }
            if s == format!("FragTwin({k})") {
                return Some(Scenario::FragTwin(k));
            }
        }
        match s {
            "CancelTwin" => Some(Scenario::CancelTwin),
            "AgeTwin" => Some(Scenario::AgeTwin),
            "Table" => Some(Scenario::Table),
            _ => None,
        }
    }
}

pub struct RunResult {
    pub violations: Vec<Violation>,
    pub stats: Stats,
    pub tape: Vec<u32>,
    pub tape2: Vec<u32>,
    pub entity_seed: u64,
    pub trace: Vec<String>,
    pub trace_hash: u64,
    pub sim_time: u64,
    pub harness_error: Option<String>,
    pub cfg_summary: String,
}

fn install_panic_hook() {
    std::panic::set_hook(Box::new(|info| {
        let loc = info.location().map(|l| format!("{}:{}", l.file(), l.line())).unwrap_or_default();
        let msg = if let Some(s) = info.payload().downcast_ref::<&str>() {
            s.to_string()
        } else if let Some(s) = info.payload().downcast_ref::<String>() {
            s.clone()
        } else {
            "panic".to_string()
        };
        PANIC_INFO.with(|p| *p.borrow_mut() = Some((msg, loc)));
    }));
}

/// Execute one run. `extra` is a scenario-specific argument (e.g. an index into an enumerated
/// space) that is part of the replay file.
pub fn run_one(scn: Scenario, tape: Tape, sched: Option<Vec<u32>>, seed: u64, extra: u64, trace_on: bool) -> RunResult {
    // clock origin: a function of the seed only (part of every replay file)
    let origin = match mix(seed, 0xC10C) % 16 {
        0 => 1,
        1 => 999_999,
        2 => (1u64 << 32) - 3_000_000,           // u32 microseconds wrap a few seconds into the run
        3 => (1u64 << 32) * 1000 - 2_000_000,    // u32 milliseconds wrap
        4 => 1u64 << 52,
        _ => 0,
    };
    clock::set_origin(origin);
    clock::reset();
    REPLAY_SCHED.with(|r| *r.borrow_mut() = sched);
    let mut tape = tape;
    let profile = match scn {
        Scenario::Program(p) => p,
        Scenario::CancelTwin | Scenario::FragTwin(_) => Profile::Twin,
        Scenario::AgeTwin => Profile::Aging,
        Scenario::Table => Profile::Invalid,
        Scenario::Bytes(_) => Profile::Inbound,
        Scenario::FaultEnum(_) => Profile::General,
    };
    let cfg = match scn {
        Scenario::Program(_) => run::gen_cfg(&mut tape, profile),
        _ => scen::cfg_for(scn, &mut tape, extra),
    };
    let mut w = World::new(tape, cfg, seed);
    w.trace_on = trace_on;
    if !matches!(scn, Scenario::Program(_)) {
        // enumerated cases are distinct by construction: the case index is part of the identity
        w.trace_hash = mix(w.trace_hash, extra);
    }
    let cfg_summary = format!(
        "rx={} tx={} keepalive={} expiry={} downgrade={} will={} auth={} id={:?} burn={}",
        w.cfg.rx_len,
        w.cfg.tx_len,
        w.cfg.keepalive_s,
        w.cfg.session_expiry,
        w.cfg.downgrade,
        w.cfg.will.is_some(),
        w.cfg.auth.is_some(),
        w.cfg.client_id.len(),
        w.cfg.id_burn
    );
    world::install(Box::new(w));
    PANIC_INFO.with(|p| *p.borrow_mut() = None);
    let r = catch_unwind(AssertUnwindSafe(|| match scn {
        Scenario::Program(p) => {
            if p == Profile::Invalid {
                world::with(invalid::will_table);
            }
            run::build_and_run(p)
        }
        other => scen::run_scenario(other, extra),
    }));
    clock::disarm_now_watchdog();
    let mut w = world::uninstall();
    let mut harness_error = None;
    if r.is_err() {
        let (msg, loc) = PANIC_INFO.with(|p| p.borrow_mut().take()).unwrap_or_default();
        let in_client = loc.contains("/repo/") || loc.contains("minimq/src");
        let in_dep = loc.contains("heapless") || loc.contains("embassy") || loc.contains("serde") || loc.contains("/rustc/") || loc.contains("library/core") || loc.contains("library/alloc");
        if msg.contains("WATCHDOG") {
            let op = w.op_label;
            w.violate_force("C16", format!("unbounded-loop-without-io/op={op}"), msg.clone());
            // twin scenarios: the first execution (same program, no cancellations / whole reads and
            // writes) got through, the second one loops
            if w.second_execution {
                match scn {
                    Scenario::CancelTwin => w.violate_force("C13", format!("loops-without-io-after-cancellation/op={op}"), "the run with cancellations ends in a loop without I/O; the uncancelled run of the same program does not".into()),
                    Scenario::FragTwin(_) => w.violate_force("C15", format!("loops-without-io-under-fragmentation/op={op}"), "the fragmented run ends in a loop without I/O; the unfragmented run of the same program does not".into()),
                    _ => {}
                }
            }
            // C10: the loop runs while the answer to the outstanding PINGREQ waits to be read - in
            // real time it spins until the round-trip bound and then reports a dead peer
            let cur = w.cur;
            if !w.conns.is_empty() && w.conns[cur].pingreq_outstanding.is_some() && w.conns[cur].pingresp_available_t.is_some() && matches!(op, "poll" | "recv" | "drive") {
                w.violate_force(
                    "C10",
                    format!("spins-without-reading-the-pingresp/op={op}"),
                    "the client loops without I/O while the PINGRESP for its outstanding PINGREQ is readable".into(),
                );
            }
        } else if in_client || in_dep {
            let short: String = msg.chars().take(60).map(|c| if c.is_ascii_digit() { '#' } else if c.is_ascii_alphanumeric() { c } else { '-' }).collect();
            let file = loc.rsplit('/').next().unwrap_or("").to_string();
            let inbound = loc.contains("/de/") || loc.contains("inbound") || loc.contains("properties") || loc.contains("varint");
            let prop = if inbound {
                "C08"
            } else if w.ids_ambiguous {
                "C07"
            } else {
                "C16"
            };
            w.violate_force(prop, format!("panic/{file}/{short}"), format!("client panicked at {loc}: {msg}"));
            if w.second_execution {
                match scn {
                    Scenario::CancelTwin => w.violate_force("C13", format!("panics-after-cancellation/{file}"), format!("the run with cancellations panics at {loc} ({msg}); the uncancelled run of the same program does not")),
                    Scenario::FragTwin(_) => w.violate_force("C15", format!("panics-under-fragmentation/{file}"), format!("the fragmented run panics at {loc} ({msg}); the unfragmented run of the same program does not")),
                    _ => {}
                }
            }
            if file.starts_with("packet_reader.rs") && (msg.contains("out of range") || msg.contains("out of bounds")) {
                w.violate_force("C14", "inbound-overruns-receive-buffer".into(), format!("client panicked at {loc}: {msg}"));
            }
        } else {
            harness_error = Some(format!("harness panic at {loc}: {msg}"));
        }
    }
    let sim_time = clock::now() - clock::origin();
    RunResult {
        violations: std::mem::take(&mut w.violations),
        stats: std::mem::take(&mut w.stats),
        tape: std::mem::take(&mut w.tape.vals),
        tape2: w.sched.as_mut().map(|t| std::mem::take(&mut t.vals)).unwrap_or_default(),
        entity_seed: w.tape.entity_seed,
        trace: std::mem::take(&mut w.trace),
        trace_hash: w.trace_hash,
        sim_time,
        harness_error,
        cfg_summary,
    }
}

fn run_seed(scn: Scenario, seed: u64, extra: u64, trace: bool) -> RunResult {
    run_one(scn, Tape::generate(seed), None, seed, extra, trace)
}

fn run_tape(scn: Scenario, vals: &[u32], vals2: &[u32], entity_seed: u64, seed: u64, extra: u64, trace: bool) -> RunResult {
    run_one(scn, Tape::replay(vals.to_vec(), entity_seed), Some(vals2.to_vec()), seed, extra, trace)
}

/// Delta-debug one vector while `fails` holds.
fn shrink(cur: &mut Vec<u32>, budget: &mut i32, fails: &dyn Fn(&[u32]) -> bool) {
    // (the budget also runs out with the wall-clock allowance: see `minimise`)
    // 1. shortest failing prefix (exhausted tape = benign choices)
    let (mut lo, mut hi) = (0usize, cur.len());
    while lo < hi && *budget > 0 {
        let mid = (lo + hi) / 2;
        *budget -= 1;
        if fails(&cur[..mid]) {
            hi = mid;
        } else {
            lo = mid + 1;
        }
    }
    if hi < cur.len() && fails(&cur[..hi]) {
        cur.truncate(hi);
    }
    // 2. delete blocks
    let mut block = (cur.len() / 2).max(1);
    while block >= 1 && *budget > 0 {
        let mut i = 0;
        while i + block <= cur.len() && *budget > 0 {
            let mut cand = cur.clone();
            cand.drain(i..i + block);
            *budget -= 1;
            if fails(&cand) {
                *cur = cand;
            } else {
                i += block;
            }
        }
        if block == 1 {
            break;
        }
        block /= 2;
    }
    // 3. zero / lower entries
    let mut i = 0;
    while i < cur.len() && *budget > 0 {
        if cur[i] != 0 {
            let old = cur[i];
            cur[i] = 0;
            *budget -= 1;
            if !fails(cur) {
                cur[i] = old / 2;
                *budget -= 1;
                if old / 2 == old || !fails(cur) {
                    cur[i] = old;
                }
            }
        }
        i += 1;
    }
    while cur.last() == Some(&0) {
        cur.pop();
    }
}

/// Shrink the tapes while a violation with the same signature persists.
fn minimise(scn: Scenario, sig: &str, vals: Vec<u32>, vals2: Vec<u32>, entity_seed: u64, seed: u64, extra: u64) -> (Vec<u32>, Vec<u32>, u64) {
    // Runs that end in an endless re-send are cut by the watchdogs only after megabytes of output:
    // replaying such a run thousands of times would take hours. The minimiser therefore also has
    // a wall-clock allowance (VERIF_MINIMISE_S, default 90 s per signature); past it every further
    // candidate counts as "does not fail", so the smallest failing tapes found so far are kept.
    let allowance = std::time::Duration::from_secs(std::env::var("VERIF_MINIMISE_S").ok().and_then(|s| s.parse().ok()).unwrap_or(90));
    let started = std::time::Instant::now();
    let fails = |v: &[u32], v2: &[u32], es: u64| -> bool {
        if started.elapsed() > allowance {
            return false;
        }
        run_tape(scn, v, v2, es, seed, extra, false).violations.iter().any(|x| x.sig == sig)
    };
    let mut cur = vals;
    let mut cur2 = vals2;
    let mut es = entity_seed;
    if !fails(&cur, &cur2, es) {
        return (cur, cur2, es);
    }
    let mut budget = 30_000i32;
    if es != 0 && fails(&cur, &cur2, 0) {
        es = 0;
    }
    // the schedule first (fewer faults), then the program; repeat until nothing shrinks any more
    loop {
        let before = (cur.len(), cur2.len(), cur.iter().map(|v| *v as u64).sum::<u64>() + cur2.iter().map(|v| *v as u64).sum::<u64>());
        if !cur2.is_empty() {
            let c1 = cur.clone();
            shrink(&mut cur2, &mut budget, &|v2: &[u32]| fails(&c1, v2, es));
        }
        let c2 = cur2.clone();
        shrink(&mut cur, &mut budget, &|v: &[u32]| fails(v, &c2, es));
        let after = (cur.len(), cur2.len(), cur.iter().map(|v| *v as u64).sum::<u64>() + cur2.iter().map(|v| *v as u64).sum::<u64>());
        if after == before || budget <= 0 || started.elapsed() > allowance {
            break;
        }
    }
    (cur, cur2, es)
}

fn repo_rev() -> String {
    std::process::Command::new("git")
        .args(["-C", "/repo", "rev-parse", "--short", "HEAD"])
        .output()
        .ok()
        .map(|o| String::from_utf8_lossy(&o.stdout).trim().to_string())
        .unwrap_or_default()
}

fn verif_dir() -> String {
    std::env::var("VERIF_DIR").unwrap_or_else(|_| "/verif".to_string())
}

fn write_replay(prop: &str, scn: Scenario, seed: u64, extra: u64, v: &Violation, tape: &[u32], tape2: &[u32], es: u64, trace: &[String], cfg: &str) -> String {
    let h = util::fnv(v.sig.as_bytes());
    let dir = format!("{}/replays", verif_dir());
    let _ = std::fs::create_dir_all(&dir);
    let path = format!("{}/{}-{:08x}-{}.json", dir, prop, h as u32, seed);
    let j = json!({
        "property": prop,
        "signature": v.sig,
        "violation": v.detail,
        "scenario": scn.name(),
        "seed": seed,
        "extra": extra,
        "entity_seed": es,
        "tape": tape,
        "tape2": tape2,
        "config": cfg,
        "repo_rev": repo_rev(),
        "trace": trace,
    });
    let _ = std::fs::write(&path, serde_json::to_string_pretty(&j).unwrap());
    path
}

#[derive(Clone)]
struct Known {
    property: String,
    signature: String,
    status: String,
    what_fails: String,
}

fn load_known() -> Vec<Known> {
    let path = format!("{}/known_findings.json", verif_dir());
    let Ok(s) = std::fs::read_to_string(path) else {
        return Vec::new();
    };
    let Ok(v) = serde_json::from_str::<Value>(&s) else {
        eprintln!("harness: known_findings.json does not parse");
        std::process::exit(2);
    };
    v["findings"]
        .as_array()
        .map(|a| {
            a.iter()
                .map(|f| Known {
                    property: f["property"].as_str().unwrap_or("").to_string(),
                    signature: f["signature"].as_str().unwrap_or("").to_string(),
                    status: f["status"].as_str().unwrap_or("").to_string(),
                    what_fails: f["what_fails"].as_str().unwrap_or("").to_string(),
                })
                .collect()
        })
        .unwrap_or_default()
}

struct Agg {
    runs: u64,
    nontrivial_hashes: BTreeSet<u64>,
    faults: BTreeMap<&'static str, u64>,
    probes: BTreeMap<&'static str, u64>,
    ops: BTreeMap<&'static str, u64>,
    states: BTreeSet<u64>,
    trigrams: BTreeSet<u64>,
    polls: u64,
    io_calls: u64,
    events: u64,
    conns: u64,
    sim_time: u128,
    /// signature -> (count, first (scenario, seed, extra), violation)
    viol: BTreeMap<String, (u64, Scenario, u64, u64, Violation)>,
    others: BTreeMap<String, (u64, String, u64)>,
    harness_errors: Vec<String>,
    samples: Vec<Value>,
    per_scenario: BTreeMap<String, u64>,
}

fn merge(agg: &mut Agg, prop: &str, scn: Scenario, seed: u64, extra: u64, r: RunResult, nontrivial_probes: &[&str]) {
    agg.runs += 1;
    *agg.per_scenario.entry(scn.name()).or_insert(0) += 1;
    let nontrivial = nontrivial_probes.is_empty() || nontrivial_probes.iter().any(|p| r.stats.probes.get(p).copied().unwrap_or(0) > 0 || r.stats.faults.get(p).copied().unwrap_or(0) > 0);
    if nontrivial {
        agg.nontrivial_hashes.insert(r.trace_hash);
    }
    for (k, v) in &r.stats.faults {
        *agg.faults.entry(k).or_insert(0) += v;
    }
    for (k, v) in &r.stats.probes {
        *agg.probes.entry(k).or_insert(0) += v;
    }
    for (k, v) in &r.stats.ops {
        *agg.ops.entry(k).or_insert(0) += v;
    }
    if agg.states.len() < 2_000_000 {
        agg.states.extend(r.stats.states.iter());
    }
    if agg.trigrams.len() < 2_000_000 {
        agg.trigrams.extend(r.stats.trigrams.iter());
    }
    agg.polls += r.stats.polls;
    agg.io_calls += r.stats.io_calls;
    agg.events += r.stats.events;
    agg.conns += r.stats.conns;
    agg.sim_time += r.sim_time as u128;
    if let Some(e) = r.harness_error {
        if agg.harness_errors.len() < 5 {
            agg.harness_errors.push(format!("{} seed={} extra={}: {}", scn.name(), seed, extra, e));
        }
    }
    for v in r.violations {
        if v.prop == prop {
            agg.viol.entry(v.sig.clone()).and_modify(|e| e.0 += 1).or_insert((1, scn, seed, extra, v));
        } else {
            let e = agg.others.entry(v.sig).or_insert((0, scn.name(), seed));
            e.0 += 1;
            if (scn.name(), seed) < (e.1.clone(), e.2) {
                e.1 = scn.name();
                e.2 = seed;
            }
        }
    }
}

fn check(prop: &str, tier: &str, seed: u64) -> i32 {
    let t0 = Instant::now();
    let plan = plan::plan_for(prop, tier);
    let Some(plan) = plan else {
        eprintln!("harness: unknown property {prop}");
        return 2;
    };
    let known = load_known();
    let threads: usize = std::env::var("VERIF_THREADS").ok().and_then(|s| s.parse().ok()).unwrap_or(16);
    let wall_cap: u64 = std::env::var("VERIF_WALL_CAP_S").ok().and_then(|s| s.parse().ok()).unwrap_or(if tier == "quick" { 240 } else { 3000 });
    println!("check {prop} tier={tier} VERIF_SEED={seed} threads={threads} repo_rev={}", repo_rev());
    // the list of runs is a pure function of (seed, tier)
    let mut jobs: Vec<(Scenario, u64, u64)> = Vec::new();
    // VERIF_SCALE_PCT (default 100) thins the plan out for the change x check matrix: that
    // percentage of the random runs, every (100/pct)-th case of the enumerated spaces
    let pct: u64 = std::env::var("VERIF_SCALE_PCT").ok().and_then(|s| s.parse().ok()).filter(|p| (1..=100).contains(p)).unwrap_or(100);
    let stride = 100 / pct;
    for (si, item) in plan.items.iter().enumerate() {
        let runs = if item.enumerate { item.runs / stride } else { (item.runs * pct / 100).max(1) };
        for i in 0..runs {
            let s = mix(mix(seed, 0x5CE0 + si as u64), i);
            let extra = match (item.enumerate, item.sample_space) {
                (true, _) => i * stride,
                (false, Some(n)) => mix(s, 0xE87A) % n,
                _ => 0,
            };
            jobs.push((item.scn, s, extra));
        }
    }
    let total = jobs.len();
    let next = std::sync::atomic::AtomicUsize::new(0);
    let capped = std::sync::atomic::AtomicBool::new(false);
    let nontrivial = plan.nontrivial;
    let mut aggs: Vec<Agg> = Vec::new();
    std::thread::scope(|sc| {
        let mut hs = Vec::new();
        for _ in 0..threads {
            hs.push(sc.spawn(|| {
                let mut agg = new_agg();
                loop {
                    let i = next.fetch_add(1, std::sync::atomic::Ordering::Relaxed);
                    if i >= total {
                        break;
                    }
                    if t0.elapsed().as_secs() > wall_cap {
                        capped.store(true, std::sync::atomic::Ordering::Relaxed);
                        break;
                    }
                    let (scn, s, extra) = jobs[i];
                    let r = run_seed(scn, s, extra, false);
                    merge(&mut agg, prop, scn, s, extra, r, nontrivial);
                }
                agg
            }));
        }
        for h in hs {
            aggs.push(h.join().expect("worker"));
        }
    });
    let mut agg = new_agg();
    for a in aggs {
        agg.runs += a.runs;
        agg.nontrivial_hashes.extend(a.nontrivial_hashes);
        for (k, v) in a.faults {
            *agg.faults.entry(k).or_insert(0) += v;
        }
        for (k, v) in a.probes {
            *agg.probes.entry(k).or_insert(0) += v;
        }
        for (k, v) in a.ops {
            *agg.ops.entry(k).or_insert(0) += v;
        }
        for (k, v) in a.per_scenario {
            *agg.per_scenario.entry(k).or_insert(0) += v;
        }
        agg.states.extend(a.states);
        agg.trigrams.extend(a.trigrams);
        agg.polls += a.polls;
        agg.io_calls += a.io_calls;
        agg.events += a.events;
        agg.conns += a.conns;
        agg.sim_time += a.sim_time;
        for (k, v) in a.viol {
            match agg.viol.get_mut(&k) {
                Some(e) => {
                    e.0 += v.0;
                    // keep the lexicographically smallest (scenario, seed) for determinism
                    if (v.1, v.2, v.3) < (e.1, e.2, e.3) {
                        e.1 = v.1;
                        e.2 = v.2;
                        e.3 = v.3;
                        e.4 = v.4;
                    }
                }
                None => {
                    agg.viol.insert(k, v);
                }
            }
        }
        for (k, v) in a.others {
            match agg.others.get_mut(&k) {
                Some(e) => {
                    e.0 += v.0;
                    if (v.1.clone(), v.2) < (e.1.clone(), e.2) {
                        e.1 = v.1;
                        e.2 = v.2;
                    }
                }
                None => {
                    agg.others.insert(k, v);
                }
            }
        }
        agg.harness_errors.extend(a.harness_errors);
    }
    if !agg.harness_errors.is_empty() {
        for e in &agg.harness_errors {
            eprintln!("HARNESS-ERROR {e}");
        }
        return 2;
    }
    // samples: a few runs written out as event lists
    let mut samples = Vec::new();
    for (scn, s, extra) in jobs.iter().take(total).step_by((total / 3).max(1)).take(3) {
        let r = run_seed(*scn, *s, *extra, true);
        let ev: Vec<&String> = r.trace.iter().take(60).collect();
        samples.push(json!({"scenario": scn.name(), "seed": s, "extra": extra, "config": r.cfg_summary, "events_total": r.trace.len(), "first_events": ev}));
    }
    // violations: minimise, replay in a fresh process, report
    let mut exit = 0;
    let mut known_seen = Vec::new();
    let mut new_viol = Vec::new();
    for (sig, (count, scn, s, extra, v)) in agg.viol.iter() {
        let k = known.iter().find(|k| k.status == "open" && k.property == prop && k.signature == *sig);
        if let Some(k) = k {
            println!("KNOWN-FINDING: property={} {} [{} runs, signature {}]", prop, k.what_fails, count, sig);
            known_seen.push(json!({"signature": sig, "runs": count, "what_fails": k.what_fails}));
            continue;
        }
        // reproduce + minimise
        let first = run_seed(*scn, *s, *extra, false);
        let (tape, tape2, es) = minimise(*scn, sig, first.tape.clone(), first.tape2.clone(), first.entity_seed, *s, *extra);
        let rep = run_tape(*scn, &tape, &tape2, es, *s, *extra, true);
        let Some(vv) = rep.violations.iter().find(|x| x.sig == *sig) else {
            eprintln!("HARNESS-ERROR minimised run for {sig} does not reproduce (scenario {} seed {s})", scn.name());
            return 2;
        };
        let path = write_replay(prop, *scn, *s, *extra, vv, &tape, &tape2, es, &rep.trace, &rep.cfg_summary);
        // replay the file in a fresh process: it must fail the same way
        let exe = std::env::current_exe().unwrap();
        let out = std::process::Command::new(exe).args(["replay", &path]).output();
        let ok = out.as_ref().map(|o| o.status.code() == Some(1) && String::from_utf8_lossy(&o.stdout).contains(sig.as_str())).unwrap_or(false);
        if !ok {
            eprintln!("HARNESS-ERROR replay of {path} in a fresh process did not reproduce {sig}");
            return 2;
        }
        println!("VIOLATION property={} replay={}", prop, path);
        println!("  signature: {}  ({} of {} runs; minimised tape {}+{} entries)", sig, count, agg.runs, tape.len(), tape2.len());
        println!("  {}", v.detail);
        let _ = v;
        new_viol.push(json!({"signature": sig, "runs": count, "replay": path, "detail": vv.detail}));
        exit = 1;
    }
    for k in known.iter().filter(|k| k.status == "open" && k.property == prop) {
        if !agg.viol.contains_key(&k.signature) {
            println!("note: open known finding not re-observed in this run: {}", k.signature);
        }
    }
    let wall = t0.elapsed().as_secs_f64();
    // evidence
    let runs_per_hour = if wall > 0.0 { agg.runs as f64 / wall * 3600.0 } else { 0.0 };
    let zero_probes: Vec<&&str> = plan.nontrivial.iter().filter(|p| agg.probes.get(**p).copied().unwrap_or(0) == 0 && agg.faults.get(**p).copied().unwrap_or(0) == 0).collect();
    for z in &zero_probes {
        println!("warning: reach probe '{}' stayed at zero", z);
    }
    // observations that belong to other properties: not judged here, but recorded with a
    // reproducing seed; one that is not a listed finding of its own property is worth a look
    let mut cross: BTreeMap<String, Value> = BTreeMap::new();
    for (k, v) in agg.others.iter() {
        let listed = known.iter().any(|kf| kf.status == "open" && kf.signature == *k);
        if !listed {
            println!("note: observation outside this property, not a listed finding: {} ({} runs, first {} seed={})", k, v.0, v.1, v.2);
        }
        cross.insert(k.clone(), json!({"runs": v.0, "first": format!("{} seed={}", v.1, v.2), "listed_finding_of_its_property": listed}));
    }
    let ev = json!({
        "property_id": prop,
        "tier": tier,
        "seed": seed,
        "level": plan.level,
        "coverage": {
            "evaluations": agg.runs,
            "distinct_nontrivial": agg.nontrivial_hashes.len(),
            "rule": plan.rule,
            "samples": samples,
            "exhaustive": plan.exhaustive,
            "runs_per_scenario": agg.per_scenario,
            "runs_planned": total,
            "plan_scale_percent": pct,
            "wall_clock_cap_hit": capped.load(std::sync::atomic::Ordering::Relaxed),
            "runs_per_hour": runs_per_hour as u64,
            "seeds_per_hour": runs_per_hour as u64,
            "simulated_time_s": (agg.sim_time / 1_000_000) as u64,
            "client_polls": agg.polls,
            "io_calls": agg.io_calls,
            "scheduler_events": agg.events,
            "connections": agg.conns,
            "fault_kinds_fired": agg.faults,
            "reach_probes": agg.probes,
            "operations": agg.ops,
            "distinct_abstract_states": agg.states.len(),
            "distinct_event_trigrams": agg.trigrams.len(),
            "components": {
                "real": ["minimq (whole crate from /repo working tree, feature verif)", "embassy-time Timer/with_deadline/Instant", "heapless", "serde", "embedded-io-async traits"],
                "stub": ["transport (SimIo)", "time driver (simulated clock)", "executor (single future, no-op waker)", "broker model + reference MQTT 5 codec", "application model"]
            },
            "known_findings_seen": known_seen,
            "violations_reported": new_viol,
            "cross_property_observations": cross,
        },
        "assumptions": plan.assumptions,
        "wall_s": wall,
        "violations": if exit == 0 { 0 } else { agg.viol.len() as i64 - known_seen.len() as i64 },
    });
    let dir = format!("{}/evidence", verif_dir());
    let _ = std::fs::create_dir_all(&dir);
    if let Err(e) = std::fs::write(format!("{}/{}.json", dir, prop), serde_json::to_string_pretty(&ev).unwrap()) {
        eprintln!("HARNESS-ERROR cannot write evidence: {e}");
        return 2;
    }
    println!(
        "{} {}: {} runs, {} distinct non-trivial, {} states, {} trigrams, {:.1}s wall, {} simulated s, exit {}",
        prop,
        tier,
        agg.runs,
        agg.nontrivial_hashes.len(),
        agg.states.len(),
        agg.trigrams.len(),
        wall,
        agg.sim_time / 1_000_000,
        exit
    );
    exit
}

fn new_agg() -> Agg {
    Agg {
        runs: 0,
        nontrivial_hashes: BTreeSet::new(),
        faults: BTreeMap::new(),
        probes: BTreeMap::new(),
        ops: BTreeMap::new(),
        states: BTreeSet::new(),
        trigrams: BTreeSet::new(),
        polls: 0,
        io_calls: 0,
        events: 0,
        conns: 0,
        sim_time: 0,
        viol: BTreeMap::new(),
        others: BTreeMap::new(),
        harness_errors: Vec::new(),
        samples: Vec::new(),
        per_scenario: BTreeMap::new(),
    }
}

fn replay(path: &str) -> i32 {
    let Ok(s) = std::fs::read_to_string(path) else {
        eprintln!("harness: cannot read {path}");
        return 2;
    };
    let Ok(j) = serde_json::from_str::<Value>(&s) else {
        eprintln!("harness: {path} is not JSON");
        return 2;
    };
    let Some(scn) = j["scenario"].as_str().and_then(Scenario::parse) else {
        eprintln!("harness: unknown scenario in {path}");
        return 2;
    };
    let tape: Vec<u32> = j["tape"].as_array().map(|a| a.iter().map(|v| v.as_u64().unwrap_or(0) as u32).collect()).unwrap_or_default();
    let tape2: Vec<u32> = j["tape2"].as_array().map(|a| a.iter().map(|v| v.as_u64().unwrap_or(0) as u32).collect()).unwrap_or_default();
    let es = j["entity_seed"].as_u64().unwrap_or(0);
    let seed = j["seed"].as_u64().unwrap_or(0);
    let extra = j["extra"].as_u64().unwrap_or(0);
    let sig = j["signature"].as_str().unwrap_or("").to_string();
    let prop = j["property"].as_str().unwrap_or("").to_string();
    let r = run_tape(scn, &tape, &tape2, es, seed, extra, true);
    if std::env::var("VERIF_TRACE").is_ok() {
        for l in &r.trace {
            println!("{l}");
        }
    }
    if let Some(e) = r.harness_error {
        eprintln!("HARNESS-ERROR {e}");
        return 2;
    }
    if let Some(v) = r.violations.iter().find(|v| v.sig == sig) {
        println!("VIOLATION property={} replay={}", prop, path);
        println!("  signature: {}", v.sig);
        println!("  {}", v.detail);
        1
    } else {
        println!("replay of {path}: signature {sig} no longer reproduces ({} other violations)", r.violations.len());
        for v in &r.violations {
            println!("  other: {}", v.sig);
        }
        0
    }
}

/// Determinism proof: run many seeds twice and compare full event logs.
fn selftest(n: u64, seed: u64) -> i32 {
    let scns = plan::all_scenarios();
    let mut bad = 0;
    let mut total = 0;
    let t0 = Instant::now();
    let mut lines = Vec::new();
    for (si, scn) in scns.iter().enumerate() {
        for i in 0..n {
            let s = mix(mix(seed, 0xDE7 + si as u64), i);
            let extra = i;
            let a = run_seed(*scn, s, extra, true);
            let b = run_seed(*scn, s, extra, true);
            let c = run_tape(*scn, &a.tape, &a.tape2, a.entity_seed, s, extra, true);
            total += 1;
            let ha = util::fnv(a.trace.join("\n").as_bytes());
            let hb = util::fnv(b.trace.join("\n").as_bytes());
            let hc = util::fnv(c.trace.join("\n").as_bytes());
            lines.push(format!("{} {} {:016x}", scn.name(), s, ha));
            if ha != hb || ha != hc || a.tape != b.tape {
                bad += 1;
                if bad < 5 {
                    eprintln!("NONDETERMINISM scenario {} seed {s}: {ha:x} {hb:x} {hc:x}", scn.name());
                }
            }
            if let Some(e) = a.harness_error {
                eprintln!("HARNESS-ERROR {} seed {s}: {e}", scn.name());
                bad += 1;
            }
        }
    }
    let digest = util::fnv(lines.join("\n").as_bytes());
    println!("selftest: {total} runs x3 (generate, generate, replay-from-tape), {bad} mismatches, log digest {digest:016x}, {:.1}s", t0.elapsed().as_secs_f64());
    if let Ok(p) = std::env::var("VERIF_SELFTEST_LOG") {
        let _ = std::fs::write(p, lines.join("\n"));
    }
    if bad == 0 { 0 } else { 2 }
}

fn main() {
    install_panic_hook();
    let args: Vec<String> = std::env::args().collect();
    let seed: u64 = std::env::var("VERIF_SEED").ok().and_then(|s| s.parse().ok()).unwrap_or(20260925);
    let code = match args.get(1).map(|s| s.as_str()) {
        Some("check") => {
            let prop = args.get(2).cloned().unwrap_or_default();
            let tier = std::env::var("VERIF_TIER").ok().filter(|t| t == "quick" || t == "thorough").or_else(|| args.get(3).cloned()).unwrap_or_else(|| "quick".into());
            check(&prop, &tier, seed)
        }
        Some("replay") => replay(args.get(2).map(|s| s.as_str()).unwrap_or("")),
        Some("selftest") => selftest(args.get(2).and_then(|s| s.parse().ok()).unwrap_or(200), seed),
        Some("run") => {
            // sim run <Scenario> <seed> [extra]
            let scn = args.get(2).and_then(|s| Scenario::parse(s)).unwrap_or(Scenario::Program(Profile::General));
            let s = args.get(3).and_then(|s| s.parse().ok()).unwrap_or(1);
            let extra = args.get(4).and_then(|s| s.parse().ok()).unwrap_or(0);
            let r = run_seed(scn, s, extra, true);
            for l in &r.trace {
                println!("{l}");
            }
            println!("config: {}", r.cfg_summary);
            for v in &r.violations {
                println!("VIOL {} :: {}", v.sig, v.detail);
            }
            if let Some(e) = r.harness_error {
                println!("HARNESS-ERROR {e}");
            }
            0
        }
        Some("survey") => {
            // sim survey <Scenario> <n>: signatures of all violations over n seeds
            let scn = args.get(2).and_then(|s| Scenario::parse(s)).unwrap_or(Scenario::Program(Profile::General));
            let n: u64 = args.get(3).and_then(|s| s.parse().ok()).unwrap_or(1000);
            let mut sigs: BTreeMap<String, (u64, u64, String, u64)> = BTreeMap::new();
            let mut herr = 0;
            for i in 0..n {
                let s = mix(seed, i);
                let r = run_seed(scn, s, i, false);
                if let Some(e) = r.harness_error {
                    herr += 1;
                    if herr < 4 {
                        println!("HARNESS-ERROR seed {s}: {e}");
                    }
                }
                for v in r.violations {
                    sigs.entry(v.sig).and_modify(|e| e.0 += 1).or_insert((1, s, v.detail, i));
                }
            }
            for (k, (c, s, d, i)) in &sigs {
                println!("{c:>6} {k}  [seed {s} case {i}] {d}");
            }
            println!("{} signatures over {n} runs, {herr} harness errors", sigs.len());
            0
        }
        _ => {
            eprintln!("usage: sim check <ID> [quick|thorough] | replay <file> | selftest [n] | run <Scenario> <seed> | survey <Scenario> <n>");
            2
        }
    };
    std::process::exit(code);
}
