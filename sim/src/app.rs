//! Application model + executor: drives the real minimq `Session`/`Connection` through its public
//! API, decides cancellation, checks operation results and handle statuses after every step.

use crate::clock::{self, US_PER_MS, US_PER_S};
use crate::codec::{self, PVal, Packet, Prop, SubFilter};
use crate::io::SimIo;
use crate::world::{self, with, Accept, Blocked, Delivered, Expect, Phase, Profile, Req, ReqKind, RunCfg, World};
use core::future::Future;
use core::task::{Context, Poll, Waker};
use minimq::{
    ConnectEvent, Connection, Disconnect, Error, PeerError, Property, PubError, Publication, QoS,
    ReasonCode, ResourceError, RetainHandling, Session, SubscriptionOptions, TopicFilter, Will,
};

pub type Conn<'a, 'b> = Connection<'a, 'b, SimIo>;

#[derive(Clone, Debug, PartialEq)]
pub enum Res {
    Ok,
    OkNone,
    OkMsg(Delivered),
    OkOp,
    NotReady,
    Disconnected,
    InvalidRequest,
    Rejected(u8),
    InvalidPacket,
    BufferTooSmall,
    PacketTooLarge,
    InflightExhausted,
    Transport(embedded_io_async::ErrorKind),
    WriteZero,
    Payload,
    Cancelled,
}

impl Res {
    pub fn is_fatal(&self) -> bool {
        matches!(self, Res::Transport(_) | Res::Disconnected | Res::InvalidPacket)
    }
    pub fn name(&self) -> String {
        match self {
            Res::OkMsg(_) => "OkMsg".into(),
            other => format!("{:?}", other),
        }
    }
}

pub fn map_err(e: Error<embedded_io_async::ErrorKind>) -> Res {
    match e {
        Error::NotReady => Res::NotReady,
        Error::Disconnected => Res::Disconnected,
        Error::InvalidRequest => Res::InvalidRequest,
        Error::Peer(PeerError::Rejected(code)) => Res::Rejected(u8::from(code)),
        Error::Peer(PeerError::InvalidPacket) => Res::InvalidPacket,
        Error::Peer(_) => Res::InvalidPacket,
        Error::Resource(ResourceError::BufferTooSmall) => Res::BufferTooSmall,
        Error::Resource(ResourceError::PacketTooLarge) => Res::PacketTooLarge,
        Error::Resource(ResourceError::InflightExhausted) => Res::InflightExhausted,
        Error::Resource(_) => Res::BufferTooSmall,
        Error::Transport(k) => Res::Transport(k),
        Error::WriteZero => Res::WriteZero,
        _ => Res::InvalidRequest,
    }
}

// ------------------------------------------------------------------ property conversion

pub fn to_minimq(p: &Prop) -> Property<'_> {
    match (&p.val, p.id) {
        (PVal::Byte(v), 0x01) => Property::PayloadFormatIndicator(*v),
        (PVal::U32(v), 0x02) => Property::MessageExpiryInterval(*v),
        (PVal::Str(s), 0x03) => Property::ContentType(s),
        (PVal::Str(s), 0x08) => Property::ResponseTopic(s),
        (PVal::Bin(b), 0x09) => Property::CorrelationData(b),
        (PVal::Var(v), 0x0B) => Property::SubscriptionIdentifier(*v),
        (PVal::U32(v), 0x11) => Property::SessionExpiryInterval(*v),
        (PVal::Str(s), 0x12) => Property::AssignedClientIdentifier(s),
        (PVal::U16(v), 0x13) => Property::ServerKeepAlive(*v),
        (PVal::Str(s), 0x15) => Property::AuthenticationMethod(s),
        (PVal::Bin(b), 0x16) => Property::AuthenticationData(b),
        (PVal::Byte(v), 0x17) => Property::RequestProblemInformation(*v),
        (PVal::U32(v), 0x18) => Property::WillDelayInterval(*v),
        (PVal::Byte(v), 0x19) => Property::RequestResponseInformation(*v),
        (PVal::Str(s), 0x1A) => Property::ResponseInformation(s),
        (PVal::Str(s), 0x1C) => Property::ServerReference(s),
        (PVal::Str(s), 0x1F) => Property::ReasonString(s),
        (PVal::U16(v), 0x21) => Property::ReceiveMaximum(*v),
        (PVal::U16(v), 0x22) => Property::TopicAliasMaximum(*v),
        (PVal::U16(v), 0x23) => Property::TopicAlias(*v),
        (PVal::Byte(v), 0x24) => Property::MaximumQoS(*v),
        (PVal::Byte(v), 0x25) => Property::RetainAvailable(*v),
        (PVal::Pair(k, v), 0x26) => Property::UserProperty(k, v),
        (PVal::U32(v), 0x27) => Property::MaximumPacketSize(*v),
        (PVal::Byte(v), 0x28) => Property::WildcardSubscriptionAvailable(*v),
        (PVal::Byte(v), 0x29) => Property::SubscriptionIdentifierAvailable(*v),
        (PVal::Byte(v), 0x2A) => Property::SharedSubscriptionAvailable(*v),
        _ => panic!("harness: inconsistent property {:?}", p),
    }
}

pub fn from_minimq(p: &Property<'_>) -> Prop {
    let (id, val) = match p {
        Property::PayloadFormatIndicator(v) => (0x01, PVal::Byte(*v)),
        Property::MessageExpiryInterval(v) => (0x02, PVal::U32(*v)),
        Property::ContentType(s) => (0x03, PVal::Str(s.to_string())),
        Property::ResponseTopic(s) => (0x08, PVal::Str(s.to_string())),
        Property::CorrelationData(b) => (0x09, PVal::Bin(b.to_vec())),
        Property::SubscriptionIdentifier(v) => (0x0B, PVal::Var(*v)),
        Property::SessionExpiryInterval(v) => (0x11, PVal::U32(*v)),
        Property::AssignedClientIdentifier(s) => (0x12, PVal::Str(s.to_string())),
        Property::ServerKeepAlive(v) => (0x13, PVal::U16(*v)),
        Property::AuthenticationMethod(s) => (0x15, PVal::Str(s.to_string())),
        Property::AuthenticationData(b) => (0x16, PVal::Bin(b.to_vec())),
        Property::RequestProblemInformation(v) => (0x17, PVal::Byte(*v)),
        Property::WillDelayInterval(v) => (0x18, PVal::U32(*v)),
        Property::RequestResponseInformation(v) => (0x19, PVal::Byte(*v)),
        Property::ResponseInformation(s) => (0x1A, PVal::Str(s.to_string())),
        Property::ServerReference(s) => (0x1C, PVal::Str(s.to_string())),
        Property::ReasonString(s) => (0x1F, PVal::Str(s.to_string())),
        Property::ReceiveMaximum(v) => (0x21, PVal::U16(*v)),
        Property::TopicAliasMaximum(v) => (0x22, PVal::U16(*v)),
        Property::TopicAlias(v) => (0x23, PVal::U16(*v)),
        Property::MaximumQoS(v) => (0x24, PVal::Byte(*v)),
        Property::RetainAvailable(v) => (0x25, PVal::Byte(*v)),
        Property::UserProperty(k, v) => (0x26, PVal::Pair(k.to_string(), v.to_string())),
        Property::MaximumPacketSize(v) => (0x27, PVal::U32(*v)),
        Property::WildcardSubscriptionAvailable(v) => (0x28, PVal::Byte(*v)),
        Property::SubscriptionIdentifierAvailable(v) => (0x29, PVal::Byte(*v)),
        Property::SharedSubscriptionAvailable(v) => (0x2A, PVal::Byte(*v)),
    };
    Prop { id, val }
}

fn qos_of(q: u8) -> QoS {
    match q {
        0 => QoS::AtMostOnce,
        1 => QoS::AtLeastOnce,
        _ => QoS::ExactlyOnce,
    }
}

fn own_msg(m: &minimq::InboundPublish<'_>) -> Delivered {
    let mut props = Vec::new();
    let mut bad = false;
    for p in m.properties().iter() {
        match p {
            Ok(p) => props.push(from_minimq(&p)),
            Err(_) => {
                bad = true;
                break;
            }
        }
    }
    if bad {
        props.push(Prop { id: 0xFF, val: PVal::Byte(0) });
    }
    Delivered {
        topic: m.topic().to_string(),
        payload: m.payload().to_vec(),
        qos: m.qos() as u8,
        retain: m.retained(),
        props,
    }
}

// ------------------------------------------------------------------ executor

#[derive(Copy, Clone)]
pub struct ExecOpts {
    pub cancellable: bool,
    /// give up (cancel) when nothing can ever wake the operation
    pub idle_cancel: bool,
    /// application-level timeout on this operation in simulated us (None = unlimited)
    pub budget_us: Option<u64>,
    /// treat "only the client's own timer is pending" as idle (used by the benign drain)
    pub timer_is_idle: bool,
}

enum Pend {
    Continue,
    Cancel,
}

const SPIN_QUANTUM_US: u64 = 1_000;
const POLLS_PER_OP_LIMIT: u64 = 200_000;

fn on_pending(w: &mut World, o: &ExecOpts, started: u64) -> Pend {
    let wake = clock::take_wake();
    let cur = w.cur;
    let blocked = std::mem::replace(&mut w.conns[cur].blocked, Blocked::None);
    w.stats.polls += 1;
    if w.watchdog_tripped() {
        w.violate(
            "C16",
            format!("unbounded-io-in-one-poll/op={}", w.op_label),
            format!("more than {} I/O calls inside one poll of {}", world::IO_CALLS_PER_POLL_LIMIT, w.op_label),
        );
        w.cut = true;
        return Pend::Cancel;
    }
    let now = clock::now();
    if std::mem::replace(&mut w.cancel_once, false) && o.cancellable {
        w.kind(48);
        w.log(|| "app cancels the operation at this Pending".to_string());
        return Pend::Cancel;
    }
    if w.force_cancel.is_some() {
        w.kind(47);
        w.log(|| "fault enumeration: the operation is cancelled at this I/O call".to_string());
        return Pend::Cancel;
    }
    match blocked {
        Blocked::WriteStall | Blocked::FlushStall | Blocked::ReadStall => {
            if o.cancellable && !w.benign && { let p = w.cfg.p_cancel; w.s_chance(p, 1000) } {
                let c = &w.conns[cur];
                if c.parsed != c.wire.len() {
                    w.probe("cancel_after_partial_write");
                }
                w.fault("cancel_at_stall");
                w.kind(40);
                w.log(|| "app cancels the operation at a stalled I/O call".to_string());
                return Pend::Cancel;
            }
            Pend::Continue
        }
        Blocked::ReadNoData | Blocked::WriteSlow | Blocked::None => {
            if let Some(wk) = wake {
                if wk <= now {
                    // The client re-armed an already expired timer: a real CPU burns time here.
                    w.spin_count += 1;
                    w.probe("hot_timer_rearm");
                    clock::advance_to(now + SPIN_QUANTUM_US);
                    w.run_due_events();
                    if w.spin_count > 20_000 {
                        w.violate(
                            "C16",
                            format!("hot-loop/op={}", w.op_label),
                            "client spins on an expired timer without bound".into(),
                        );
                        w.cut = true;
                        return Pend::Cancel;
                    }
                    return Pend::Continue;
                }
            }
            if blocked == Blocked::None && wake.is_none() {
                w.violate(
                    "C16",
                    format!("pending-without-waker/op={}", w.op_label),
                    "operation returned Pending without waiting for I/O or a timer".into(),
                );
                return Pend::Cancel;
            }
            // timing profile: let inbound traffic arrive exactly around the client's own deadline
            if w.cfg.profile == Profile::Timing && !w.benign && !w.twin_mode {
                if let Some(t) = wake {
                    if t > now + 2 && w.tape.chance(1, 12) {
                        let d = t - now - 1 + w.tape.choose(3) as u64;
                        w.force_delay = Some(d);
                        let cur = w.cur;
                        if crate::broker::broker_publish(w, cur) {
                            w.probe("inbound_around_client_deadline");
                        }
                        w.force_delay = None;
                    }
                }
            }
            // C10: while a keep-alive is in force a wait for inbound data always has a deadline
            // (next PINGREQ or PINGRESP timeout); without one a peer that falls silent - e.g.
            // in the middle of a packet - is never noticed and no PINGREQ is ever sent
            if blocked == Blocked::ReadNoData && wake.is_none() && matches!(w.op_label, "poll" | "recv") {
                if let Some(k) = crate::broker::keepalive_eff(w, cur) {
                    if k > 0 && w.conns[cur].connack_consumed {
                        let inside = w.conns[cur].rx_hold;
                        w.violate(
                            "C10",
                            format!("waits-without-keepalive-deadline/op={}/inbound-packet-half-received={}", w.op_label, inside),
                            format!("{} waits for inbound data with no timer armed although a keep-alive of {k} s is in force", w.op_label),
                        );
                    }
                }
            }
            let next_ev = w.next_event_time();
            if o.cancellable && !w.benign && { let p = w.cfg.p_cancel; w.s_chance(p, 1000) } {
                w.fault("cancel_at_read_or_timer");
                w.kind(41);
                w.log(|| "app cancels the operation while it waits".to_string());
                return Pend::Cancel;
            }
            let target = match (next_ev, wake) {
                (Some(a), Some(b)) => Some(a.min(b)),
                (a, b) => a.or(b),
            };
            let Some(mut t) = target else {
                w.last_cancel_idle = true;
                w.kind(42);
                w.log(|| "nothing can wake the operation: app gives up waiting".to_string());
                return Pend::Cancel;
            };
            if o.timer_is_idle && next_ev.is_none() {
                w.last_cancel_idle = true;
                w.kind(42);
                return Pend::Cancel;
            }
            if let Some(b) = o.budget_us {
                let deadline = started + b;
                if t > deadline {
                    clock::advance_to(deadline);
                    w.kind(43);
                    w.log(|| "application-level timeout: app cancels the operation".to_string());
                    w.run_due_events();
                    return Pend::Cancel;
                }
            }
            if t < now {
                t = now;
            }
            if Some(t) == wake && next_ev == Some(t) {
                w.probe("event_exactly_on_client_deadline");
            }
            clock::advance_to(t);
            w.run_due_events();
            Pend::Continue
        }
    }
}

pub fn exec<F: Future>(fut: F, o: ExecOpts) -> Option<F::Output> {
    let mut fut = core::pin::pin!(fut);
    let waker = Waker::noop();
    let mut cx = Context::from_waker(waker);
    let started = clock::now();
    let mut polls = 0u64;
    let mut polls_same_t = 0u64;
    let mut last_t = clock::now();
    with(|w| {
        w.spin_count = 0;
        w.last_cancel_idle = false;
    });
    loop {
        clock::clear_wake();
        with(|w| w.io_calls_this_poll = 0);
        clock::arm_now_watchdog(200_000);
        let r = fut.as_mut().poll(&mut cx);
        clock::disarm_now_watchdog();
        match r {
            Poll::Ready(v) => return Some(v),
            Poll::Pending => {
                polls += 1;
                if clock::now() != last_t {
                    last_t = clock::now();
                    polls_same_t = 0;
                } else {
                    polls_same_t += 1;
                }
                if polls > 4_000 && o.cancellable && polls_same_t < 1000 {
                    // the application has waited long enough (e.g. recv() across many keep-alive cycles)
                    with(|w| {
                        w.kind(44);
                        w.log(|| "app: gives up waiting after many wake-ups".to_string());
                    });
                    return None;
                }
                if polls_same_t > POLLS_PER_OP_LIMIT {
                    with(|w| {
                        w.violate(
                            "C16",
                            format!("too-many-polls/op={}", w.op_label),
                            "operation did not finish within the poll budget".into(),
                        );
                        w.cut = true;
                    });
                    return None;
                }
                match with(|w| on_pending(w, &o, started)) {
                    Pend::Continue => {}
                    Pend::Cancel => return None,
                }
            }
        }
    }
}

// ------------------------------------------------------------------ request generation

pub struct PubSpec {
    pub tag: u32,
    pub topic: String,
    pub payload: Vec<u8>,
    pub qos: u8,
    pub retain: bool,
    pub props: Vec<Prop>,
    pub correlate: Option<Vec<u8>>,
    pub payload_fails: bool,
}

/// Strings do not end in ASCII only: now and then a two-, three- or four-byte character closes
/// a topic, a filter or a property value (every length prefix counts bytes, not characters).
fn utf8_tail(w: &mut World) -> &'static str {
    ["", "", "", "", "", "", "é", "°", "温度", "x€", "𝄞"][w.tape.choose(11) as usize]
}

fn gen_user_props(w: &mut World, max: u32) -> Vec<Prop> {
    let n = w.tape.choose(max + 1);
    (0..n)
        .map(|i| Prop {
            id: 0x26,
            val: PVal::Pair(format!("k{}{}", i, utf8_tail(w)), format!("{}{}", "v".repeat(w.tape.choose(4) as usize), utf8_tail(w))),
        })
        .collect()
}

fn gen_pub_props(w: &mut World) -> Vec<Prop> {
    let mut v = Vec::new();
    if w.tape.chance(1, 3) {
        return v;
    }
    let n = w.tape.choose(4);
    for i in 0..n {
        let p = match w.tape.choose(7) {
            0 => Prop { id: 0x01, val: PVal::Byte(w.tape.choose(2) as u8) },
            1 => Prop { id: 0x02, val: PVal::U32([0u32, 1, 60, u32::MAX][w.tape.choose(4) as usize]) },
            2 => Prop { id: 0x03, val: PVal::Str(["", "a", "application/json", "texte/é"][w.tape.choose(4) as usize].into()) },
            3 => Prop { id: 0x08, val: PVal::Str(format!("reply/{}{}", i, utf8_tail(w))) },
            4 => Prop { id: 0x09, val: PVal::Bin((0..w.tape.choose(6)).map(|x| x as u8 ^ 0xA5).collect()) },
            _ => Prop { id: 0x26, val: PVal::Pair(format!("u{}", i), "x".repeat(w.tape.choose(5) as usize)) },
        };
        if p.id == 0x26 || !v.iter().any(|q: &Prop| q.id == p.id) {
            v.push(p);
        }
    }
    v
}

fn payload_len(w: &mut World) -> usize {
    let tx = w.cfg.tx_len;
    match w.cfg.payload_law {
        0 => w.tape.choose(4) as usize,
        1 => [0usize, 1, 2, 7, 16, 40][w.tape.choose(6) as usize],
        2 => match w.tape.choose(6) {
            0 => 0,
            1 => 1 + w.tape.choose(16) as usize,
            2 => w.tape.choose(200) as usize,
            3 => tx / 4,
            4 => tx / 2,
            _ => tx.saturating_sub(w.tape.choose(24) as usize),
        },
        _ => match w.tape.choose(4) {
            0 => w.tape.choose(8) as usize,
            1 => 120 + w.tape.choose(16) as usize, // around the 1/2-byte remaining length boundary
            2 => tx.saturating_sub(8 + w.tape.choose(16) as usize),
            _ => w.tape.choose(tx as u32 + 4) as usize,
        },
    }
}

/// Size of the CONNECT this configuration produces (plus the 5 bytes of header scratch).
pub fn connect_need(w: &World) -> usize {
    let c = &w.cfg;
    let p = Packet::Connect {
        clean_start: false,
        keepalive: 0,
        props: vec![Prop { id: 0x27, val: PVal::U32(1) }, Prop { id: 0x11, val: PVal::U32(1) }, Prop { id: 0x21, val: PVal::U16(1) }],
        client_id: if c.client_id.is_empty() { "assigned-00".to_string() } else { c.client_id.clone() },
        will: c.will.as_ref().map(|x| codec::WillMsg { qos: x.qos, retain: x.retain, props: x.props.clone(), topic: x.topic.clone(), payload: x.payload.clone() }),
        user: c.auth.as_ref().map(|a| a.0.clone()),
        password: c.auth.as_ref().map(|a| a.1.clone()),
    };
    codec::encode(&p).len() + 8
}

fn new_tag(w: &mut World) -> u32 {
    let t = w.next_tag;
    w.next_tag += 1;
    t
}

pub fn gen_publish(w: &mut World, qos: u8) -> PubSpec {
    let tag = new_tag(w);
    let mut topic = format!("t{}", tag);
    if w.tape.chance(1, 4) {
        let pad = w.tape.choose(24) as usize;
        topic.push('/');
        topic.push_str(&"p".repeat(pad));
        topic.push_str(utf8_tail(w));
    }
    let mut n = payload_len(w);
    let mut long_field = 0usize; // 0 none, else length of one over-long / boundary field
    if w.cfg.big > 0 {
        match w.tape.choose(6) {
            0 => n = 16_360 + w.tape.choose(40) as usize,
            1 if w.cfg.big == 2 => n = 2_097_130 + w.tape.choose(40) as usize,
            2 => long_field = 65_535,
            3 => long_field = 65_536,
            // one packet longer than 64 KiB (and than 128 KiB): offsets into it do not fit 16 bits
            4 => n = 65_500 + w.tape.choose(10_000) as usize,
            _ if w.cfg.big == 2 || w.cfg.tx_len >= 200_000 && w.tape.chance(1, 2) => n = 131_000 + w.tape.choose(3_000) as usize,
            _ => {}
        }
    }
    if long_field > 0 && w.tape.chance(1, 2) {
        // the topic itself is the boundary field
        let have = topic.len();
        if long_field > have + 1 {
            topic.push('/');
            topic.push_str(&"p".repeat(long_field - have - 1));
        }
        long_field = 0;
        w.probe("topic_at_64k_boundary");
    }
    let payload: Vec<u8> = (0..n).map(|i| (tag as usize * 31 + i) as u8).collect();
    let retain = w.tape.chance(1, 5);
    let mut props = gen_pub_props(w);
    if long_field > 0 {
        props.retain(|p| p.id != 0x09);
        props.push(Prop { id: 0x09, val: PVal::Bin(vec![0xAB; long_field]) });
        w.probe("property_at_64k_boundary");
    }
    let correlate = if w.tape.chance(1, 8) {
        props.retain(|p| p.id != 0x09);
        Some(vec![tag as u8, 0xC0, 0x44])
    } else {
        None
    };
    let payload_fails = w.tape.chance(1, 40);
    let mut payload = payload;
    if w.cfg.profile == Profile::Limits && !w.conns.is_empty() {
        // C14: aim the packet size at the broker's Maximum Packet Size, two bytes either side
        if let (Some(m), true) = (w.conns[w.cur].max_packet_size, w.tape.chance(1, 3)) {
            let mut wire_props = props.clone();
            if let Some(c) = &correlate {
                wire_props.push(Prop { id: 0x09, val: PVal::Bin(c.clone()) });
            }
            let empty = Packet::Publish { dup: false, qos, retain, topic: topic.clone(), id: if qos > 0 { Some(1) } else { None }, props: wire_props, payload: vec![] };
            let base = codec::encode(&empty).len() as i64;
            let target = m as i64 - 2 + w.tape.choose(5) as i64;
            let mut n = (target - base).max(0) as usize;
            if base + n as i64 > 127 + 2 && base <= 129 {
                n = n.saturating_sub(1); // the remaining-length field grows by one byte
            }
            payload = (0..n).map(|i| (tag as usize * 31 + i) as u8).collect();
            w.probe("publish_size_aimed_at_maximum_packet_size");
        }
    }
    let mut spec = PubSpec { tag, topic, payload, qos, retain, props, correlate, payload_fails };
    if w.cfg.guards && qos > 0 {
        // Avoidance guard for the open finding "CONNECT is encoded behind the retained packets":
        // keep enough of the arena free for the next CONNECT (off in ~20 % of the runs).
        let need = connect_need(w);
        let ep = w.epoch;
        let retained: usize = w
            .reqs
            .iter()
            .filter(|r| r.epoch == ep && !r.invalidated && r.accept != Accept::NotAccepted && r.qos > 0 && !matches!(r.phase, Phase::Done(_)) && r.phase != Phase::Release)
            .map(|r| r.first_tx.as_ref().map_or_else(|| codec::encode(&r.expected).len() + 2, |b| b.len()))
            .sum();
        let room = w.cfg.tx_len.saturating_sub(need + retained);
        let overhead = spec.topic.len() + 12 + codec::props_len(&spec.props) + spec.correlate.as_ref().map_or(0, |c| c.len() + 3);
        if room < overhead + 1 {
            spec.qos = 0;
            spec.payload.truncate(room.saturating_sub(overhead).min(spec.payload.len()));
        } else if spec.payload.len() + overhead > room {
            spec.payload.truncate(room - overhead);
        }
    }
    spec
}

fn register_req(w: &mut World, tag: u32, kind: ReqKind, qos: u8, expected: Packet, is_probe: bool) -> usize {
    w.issue_seq += 1;
    let r = Req {
        tag,
        kind,
        qos,
        expected,
        conn_issued: w.cur,
        epoch: w.epoch,
        accept: Accept::Maybe,
        refused_with: None,
        id: None,
        first_tx: None,
        tx_by_conn: Default::default(),
        rel_by_conn: Default::default(),
        phase: Phase::AwaitAck,
        pubrec_order: None,
        pubrec_conn: None,
        handle: None,
        issue_seq: w.issue_seq,
        invalidated: false,
        ambiguous: w.session_ambiguous,
        is_probe,
        must_refuse: false,
    };
    w.reqs.push(r);
    let i = w.reqs.len() - 1;
    w.req_by_tag.insert(tag, i);
    i
}

fn settle_req(w: &mut World, ri: usize, res: &Res, handle: Option<minimq::Op>) {
    let tag = w.reqs[ri].tag;
    let offered = w.offered_now.contains(&tag);
    if w.must_be_dead && !matches!(res, Res::OkOp | Res::Ok | Res::OkNone) {
        // a request on a dead handle is refused: nothing of it may ever be sent (C19)
        let r = &mut w.reqs[ri];
        r.accept = Accept::NotAccepted;
        r.refused_with = Some(format!("{}-on-dead-handle", res.name()));
        r.is_probe = true;
        r.phase = Phase::Done(0xFF);
        return;
    }
    let r = &mut w.reqs[ri];
    match res {
        Res::OkOp => {
            r.accept = Accept::Accepted;
            r.handle = handle;
        }
        Res::Ok | Res::OkNone => {
            // QoS 0 publish completed (or was downgraded to QoS 0)
            r.accept = Accept::Accepted;
            r.phase = Phase::Done(0);
        }
        Res::Cancelled | Res::Transport(_) | Res::Disconnected | Res::WriteZero => {
            if offered || r.accept == Accept::Accepted {
                r.accept = Accept::Accepted;
            } else if matches!(res, Res::Disconnected) && !w.conns[w.cur].established {
                r.accept = Accept::NotAccepted;
                r.refused_with = Some(res.name());
            } else {
                r.accept = Accept::Maybe;
            }
        }
        other => {
            // local refusal
            if *other == Res::PacketTooLarge {
                *w.stats.probes.entry("refused_packet_too_large").or_insert(0) += 1;
            }
            if r.accept != Accept::Accepted {
                r.accept = Accept::NotAccepted;
                r.refused_with = Some(other.name());
                r.phase = Phase::Done(0xFF);
            }
        }
    }
}

// ------------------------------------------------------------------ the run

pub struct Ctl<'s, 'b> {
    pub session: &'s mut Session<'b>,
}

fn label(w: &mut World, l: &'static str) {
    w.op_label = l;
    w.op_start_t = clock::now();
    w.offered_now.clear();
    *w.stats.ops.entry(l).or_insert(0) += 1;
    w.kind(50 + (crate::util::fnv(l.as_bytes()) % 40) as u8);
    let e = w.expect;
    w.log(|| format!("app: {}{}", l, if e.is_some() { format!("   [expectation pending: {:?}]", e) } else { String::new() }));
}

fn std_opts(w: &mut World, cancellable: bool) -> ExecOpts {
    if w.twin_mode {
        // twin scenarios: no program-tape draws during execution
        // (in one FragTwin variant the application's requests have a timeout, like its polls:
        // never a QoS 0 publish - `cancellable` is false for it)
        let budget = (cancellable && w.cfg.twin_request_budget && w.cfg.twin_poll_budget_us > 0).then_some(w.cfg.twin_poll_budget_us);
        return ExecOpts { cancellable: cancellable && !w.no_cancel, idle_cancel: true, budget_us: budget, timer_is_idle: false };
    }
    let budget = if w.benign {
        None
    } else {
        [None, None, Some(0), Some(US_PER_MS), Some(US_PER_S), Some(10 * US_PER_S), Some(100 * US_PER_S)][w.tape.choose(7) as usize]
    };
    ExecOpts { cancellable, idle_cancel: true, budget_us: budget, timer_is_idle: false }
}

/// Check an operation result against what the simulated world knows must have happened.
fn check_result(w: &mut World, op: &'static str, res: &Res, was_live: bool, io_err_before: bool) {
    w.log(|| format!("app: {} -> {}", op, res.name()));
    if w.twin_mode {
        w.results.push(format!("{}:{}", op, res.name()));
    }
    let cur = w.cur;
    let mut expect = w.expect.take();
    if expect.is_some() {
        w.log(|| format!("     (pending expectation: {:?})", expect));
    }
    if matches!(expect, Some(Expect::Invalid) | Some(Expect::InvalidOrEof)) && !res.is_fatal() {
        // Operations that do not read cannot have noticed malformed inbound bytes yet, and a
        // reading operation may return for other progress before it has read all of them.
        let unread = w.conns[cur].rx_consumed < w.conns[cur].rx_total_enqueued;
        if unread || !matches!(op, "poll" | "recv" | "connect") {
            w.expect = expect;
            expect = None;
        }
    }
    let io_err_now = w.conns[cur].io_error.is_some() && !io_err_before;
    if *res == Res::Cancelled {
        if matches!(expect, Some(Expect::Invalid) | Some(Expect::InvalidOrEof)) && w.conns[cur].rx_consumed < w.conns[cur].rx_total_enqueued {
            // only the beginning of the malformed bytes was read so far: verdict when the
            // operation that reads the rest returns
            w.expect = expect;
            return;
        }
        if matches!(expect, Some(Expect::MaybeReject(_)) | Some(Expect::MaybeInvalid)) {
            return;
        }
        if let Some(e) = expect {
            // a fatal/failing packet cannot be consumed without the operation returning
            w.violate(
                "C13",
                format!("cancelled-after-consuming/{:?}", e),
                format!("{op} stayed pending after consuming a packet that must end it ({:?})", e),
            );
        }
        return;
    }
    match expect {
        Some(Expect::Reject(code)) => {
            if *res != Res::Rejected(code) && !io_err_now {
                w.violate(
                    "C18",
                    format!("failure-code-not-surfaced/op={op}"),
                    format!("{op} consumed an acknowledgement with reason {code:#x} but returned {}", res.name()),
                );
            }
        }
        Some(Expect::MaybeInvalid) => {
            if !matches!(res, Res::InvalidPacket) && !res.is_fatal() {
                w.probe("second_connack_ignored");
            }
        }
        Some(Expect::MaybeReject(code)) => {
            if let Res::Rejected(c) = res {
                if *c != code {
                    w.violate(
                        "C18",
                        format!("wrong-failure-code-surfaced/op={op}"),
                        format!("{op} consumed a duplicate acknowledgement with reason {code:#x} but returned Rejected({c:#x})"),
                    );
                }
            }
        }
        Some(Expect::Disconnected) => {
            if *res != Res::Disconnected && !io_err_now {
                w.violate(
                    "C11",
                    format!("broker-disconnect-not-reported/op={op}"),
                    format!("{op} consumed a broker DISCONNECT but returned {}", res.name()),
                );
            }
        }
        Some(Expect::InvalidOrEof) => {
            if !matches!(res, Res::InvalidPacket | Res::Disconnected) && !io_err_now {
                w.violate(
                    "C08",
                    format!("garbage-not-rejected/op={op}"),
                    format!("{op} consumed garbage followed by EOF but returned {}", res.name()),
                );
            }
        }
        Some(Expect::Invalid) => {
            // (a keep-alive timeout that is due before the rest of the bytes is read wins)
            // (... counted from completion, or - open finding - from the start of a slow write)
            let ping_timeout = *res == Res::Disconnected
                && w.conns[cur].pingreq_outstanding.is_some()
                && (w.conns[cur].pingreq_outstanding.is_some_and(|t0| clock::now() >= t0 + 5 * US_PER_S) || w.conns[cur].pingreq_first_offer.is_some_and(|f| clock::now() >= f + 5 * US_PER_S));
            if *res != Res::InvalidPacket && !io_err_now && !ping_timeout {
                w.violate(
                    "C08",
                    format!("malformed-not-rejected/op={op}"),
                    format!("{op} consumed an invalid packet but returned {}", res.name()),
                );
            }
        }
        None if w.raw_mode => {}
        None => match res {
            Res::Rejected(code) => w.violate(
                "C18",
                format!("spurious-rejected/op={op}"),
                format!("{op} returned Rejected({code:#x}) although no failing acknowledgement was consumed"),
            ),
            Res::InvalidPacket => w.violate(
                "C08",
                format!("valid-packet-rejected/op={op}"),
                format!("{op} returned InvalidPacket although only valid packets were delivered"),
            ),
            Res::Transport(k) => {
                if w.conns[cur].io_error != Some(*k) {
                    w.violate(
                        "C11",
                        format!("spurious-transport-error/op={op}"),
                        format!("{op} returned Transport({:?}) that the transport never produced", k),
                    );
                }
            }
            Res::Disconnected => {
                // must be explained: dead handle, EOF, broker DISCONNECT (handled above), or an
                // unanswered PINGREQ older than the documented 5 s round-trip bound
                let (outstanding, eof_read, bdc, had_resp) = {
                    let c = &w.conns[cur];
                    (c.pingreq_outstanding, c.eof_read, c.broker_disconnect_consumed, c.pingresp_consumed_for.is_some())
                };
                let ping_timeout = outstanding.is_some_and(|t0| clock::now() >= t0 + 5 * US_PER_S);
                // a PINGREQ is outstanding and the 5 s have passed since the client *started*
                // writing it, but not since it was completely sent (slow transport)
                let counted_from_write_start = outstanding.is_some()
                    && w.conns[cur].pingreq_first_offer.is_some_and(|f| clock::now() >= f + 5 * US_PER_S)
                    && !ping_timeout;
                if was_live && !eof_read && !bdc && counted_from_write_start {
                    w.violate(
                        "C10",
                        "timeout-before-bound/counted-from-start-of-slow-pingreq-write".into(),
                        format!(
                            "{op} returned Disconnected at t={}: the PINGREQ was completely sent at {:?}, less than 5 s ago; its first byte was offered at {:?}",
                            clock::now(),
                            outstanding,
                            w.conns[cur].pingreq_first_offer
                        ),
                    );
                } else if was_live && !eof_read && !ping_timeout && !bdc {
                    w.violate(
                        "C10",
                        format!("unexplained-disconnected/op={op}/pingresp-seen={had_resp}"),
                        format!(
                            "{op} returned Disconnected at t={} without EOF, broker DISCONNECT or an overdue PINGREQ (outstanding since {:?})",
                            clock::now(),
                            outstanding
                        ),
                    );
                }
                // "a PINGRESP received in time never leads to a disconnect": the answer had been
                // readable since before the bound, the operation was already running then (or
                // started before the bound with the answer waiting), and it was never read
                if was_live && ping_timeout && !eof_read && !bdc {
                    let bound = outstanding.unwrap() + 5 * US_PER_S;
                    if let Some(ta) = w.conns[cur].pingresp_available_t {
                        // (C10 speaks of a transport that accepts writes: a client stuck in a slow
                        // write since before the answer came cannot read it)
                        let writes_accepted = w.conns[cur].last_slow_write_until < ta;
                        if writes_accepted && ta >= outstanding.unwrap() && ta.max(w.op_start_t) + 2 * US_PER_MS < bound && matches!(op, "poll" | "recv" | "drive") {
                            w.violate(
                                "C10",
                                format!("disconnected-although-pingresp-arrived-in-time/op={op}"),
                                format!("{op} (running since t={}) returned Disconnected at t={}; the PINGRESP for the PINGREQ of t={} has been readable since t={}, before the bound t={bound}", w.op_start_t, clock::now(), outstanding.unwrap(), ta),
                            );
                        }
                    }
                }
                if was_live && ping_timeout && !eof_read {
                    w.probe("keepalive_timeout_disconnect");
                    if w.cfg.profile == Profile::Timing {
                        let t0 = outstanding.unwrap();
                        let late = clock::now() - (t0 + 5 * US_PER_S);
                        if late > 2 * US_PER_MS && w.app_waiting_since.is_some_and(|s| s <= t0) {
                            w.violate(
                                "C10",
                                "timeout-late".into(),
                                format!("keep-alive timeout reported {} us after the 5 s bound", late),
                            );
                        }
                    }
                }
            }
            _ => {}
        },
    }
    if io_err_now && !matches!(res, Res::Transport(_)) && !res.is_fatal() {
        w.violate(
            "C11",
            format!("transport-error-swallowed/op={op}"),
            format!("transport reported {:?} during {op} but the operation returned {}", w.conns[cur].io_error, res.name()),
        );
    }
}

fn status_of(conn_or_sess: &Session<'_>, op: &minimq::Op) -> u8 {
    let p = conn_or_sess.is_pending(op) as u8;
    let c = conn_or_sess.is_complete(op) as u8;
    let i = conn_or_sess.is_invalidated(op) as u8;
    p | (c << 1) | (i << 2)
}

/// C18: every handle ever issued reports exactly the status the ledger predicts.
pub fn check_handles(session: &Session<'_>) {
    with(|w| {
        if w.ids_ambiguous {
            return;
        }
        let mut bad: Option<(u32, u8, u8, &'static str)> = None;
        let mut alias: Option<u32> = None;
        for r in w.reqs.iter() {
            let Some(h) = &r.handle else { continue };
            if r.ambiguous {
                continue;
            }
            let want: u8 = if r.invalidated {
                4
            } else if matches!(r.phase, Phase::Done(_)) {
                2
            } else {
                1
            };
            let got = status_of(session, h);
            if got != want {
                // a stale handle whose identifier has been handed out again (after the 16-bit
                // counter wrapped) is a separate, known limitation
                if want == 2 && got == 1 {
                    let aliased = w.reqs.iter().any(|o| o.tag != r.tag && o.epoch == r.epoch && !o.invalidated && o.id == r.id && o.id.is_some() && o.accept != Accept::NotAccepted && !matches!(o.phase, Phase::Done(_)));
                    if aliased {
                        alias = Some(r.tag);
                        continue;
                    }
                    // a request that was enqueued but never seen on the wire has an identifier
                    // the ledger does not know yet: it may be the reused one
                    let unknown = w.reqs.iter().any(|o| o.epoch == r.epoch && !o.invalidated && o.id.is_none() && o.qos > 0 && o.accept != Accept::NotAccepted && !matches!(o.phase, Phase::Done(_)));
                    if unknown && w.cfg.id_burn != 0 {
                        continue;
                    }
                }
                let kind = match (r.kind, r.qos) {
                    (ReqKind::Pub, 1) => "pub1",
                    (ReqKind::Pub, _) => "pub2",
                    (ReqKind::Sub, _) => "sub",
                    _ => "unsub",
                };
                bad = Some((r.tag, got, want, kind));
                break;
            }
        }
        if let Some(tag) = alias {
            w.violate(
                "C18",
                "completed-handle-pending-again/identifier-reused-after-wrap".into(),
                format!("handle of completed request tag {tag} reports pending again because its identifier was handed to a new operation"),
            );
        }
        if let Some((tag, got, want, kind)) = bad {
            let n = |v: u8| match v {
                1 => "pending",
                2 => "complete",
                4 => "invalidated",
                _ => "inconsistent",
            };
            if want == 4 {
                // C05: after a fresh broker session every earlier handle reports invalidated
                w.violate(
                    "C05",
                    format!("handle-not-invalidated-by-fresh-session/{kind}/got={}", n(got)),
                    format!("handle of request tag {tag} reports {} although a fresh broker session has replaced the one it was issued in", n(got)),
                );
            }
            w.violate(
                "C18",
                format!("status/{kind}/got={},want={}", n(got), n(want)),
                format!("handle of request tag {tag} reports {} but the ledger says {}", n(got), n(want)),
            );
        }
    });
}

/// Abstract state hash for the coverage measure.
fn note_state(w: &mut World, live: bool, quiescent: bool) {
    let cur = w.cur;
    let c = &w.conns[cur];
    let mut counts = [0u64; 6];
    for r in w.reqs.iter() {
        if r.invalidated || r.accept == Accept::NotAccepted {
            continue;
        }
        match (r.kind, r.qos, r.phase) {
            (ReqKind::Pub, 1, Phase::AwaitAck) => counts[0] += 1,
            (ReqKind::Pub, 2, Phase::AwaitAck) => counts[1] += 1,
            (ReqKind::Pub, 2, Phase::Release) => counts[2] += 1,
            (ReqKind::Sub, _, Phase::AwaitAck) => counts[3] += 1,
            (ReqKind::Unsub, _, Phase::AwaitAck) => counts[4] += 1,
            _ => {}
        }
    }
    counts[5] = c.owed_acks.len() as u64;
    let mut h = 0xcbf29ce484222325u64;
    for v in counts {
        h = crate::util::mix(h, v.min(9));
    }
    h = crate::util::mix(h, live as u64);
    h = crate::util::mix(h, quiescent as u64);
    h = crate::util::mix(h, (c.parsed != c.wire.len()) as u64);
    h = crate::util::mix(h, c.session_present as u64);
    h = crate::util::mix(h, c.pingreq_outstanding.is_some() as u64);
    h = crate::util::mix(h, (c.receive_max.min(9)) as u64);
    w.stats.states.insert(h);
}

fn after_op(conn: &Conn<'_, '_>) {
    check_handles(conn.session());
    let live = conn.is_connected();
    let q = conn.session().is_publish_quiescent();
    with(|w| note_state(w, live, q));
}

pub fn do_publish(conn: &mut Conn<'_, '_>, spec: &PubSpec) -> Res {
    let (was_live, io_err_before, eff_qos) = with(|w| {
        label(w, match spec.qos {
            0 => "publish0",
            1 => "publish1",
            _ => "publish2",
        });
        let cur = w.cur;
        let mut q = spec.qos;
        if w.cfg.downgrade && w.conns[cur].established && q > w.conns[cur].max_qos && w.conns[cur].max_qos_present {
            q = w.conns[cur].max_qos;
            w.probe("qos_downgraded");
        }
        (true, w.conns[cur].io_error.is_some(), q)
    });
    let was_live = was_live && conn.is_connected();
    let mut wire_props = Vec::new();
    if let Some(c) = &spec.correlate {
        wire_props.push(Prop { id: 0x09, val: PVal::Bin(c.clone()) });
    }
    wire_props.extend(spec.props.iter().cloned());
    let expected = Packet::Publish {
        dup: false,
        qos: eff_qos,
        retain: spec.retain,
        topic: spec.topic.clone(),
        id: None,
        props: wire_props,
        payload: spec.payload.clone(),
    };
    let ri = with(|w| register_req(w, spec.tag, ReqKind::Pub, eff_qos, expected, false));
    let overlong = spec.topic.len() > 65_535 || spec.props.iter().any(|p| matches!(&p.val, PVal::Bin(b) if b.len() > 65_535) || matches!(&p.val, PVal::Str(s) if s.len() > 65_535));
    if overlong {
        // a field longer than 65535 bytes cannot be encoded: refused, nothing truncated is sent
        with(|w| w.reqs[ri].must_refuse = true);
    }
    let quiescent_before = conn.session().is_publish_quiescent();
    let mprops: Vec<Property<'_>> = spec.props.iter().map(to_minimq).collect();
    // twin runs never cancel a QoS 0 publish (documented as not cancel-safe)
    let opts = with(|w| {
        let c = !(w.twin_mode && eff_qos == 0);
        std_opts(w, c)
    });
    let mut handle = None;
    let cap_before = [conn.can_publish(QoS::AtMostOnce), conn.can_publish(QoS::AtLeastOnce), conn.can_publish(QoS::ExactlyOnce)];
    let res = {
        let fails = spec.payload_fails;
        let payload = &spec.payload[..];
        let mut p = Publication::new(&spec.topic, move |buf: &mut [u8]| -> Result<usize, ()> {
            if fails || buf.len() < payload.len() {
                return Err(());
            }
            buf[..payload.len()].copy_from_slice(payload);
            Ok(payload.len())
        });
        // the builder calls in one of their 24 orders (a function of the request tag)
        let mut order = [0u8, 1, 2, 3];
        let mut h = crate::util::mix(spec.tag as u64, 0x9B1);
        for i in (1..4).rev() {
            order.swap(i, (h % (i as u64 + 1)) as usize);
            h /= 7;
        }
        for step in order {
            p = match step {
                0 => p.qos(qos_of(spec.qos)),
                1 => p.properties(&mprops),
                2 if spec.retain => p.retain(),
                3 => match &spec.correlate {
                    Some(c) => p.correlate(c),
                    None => p,
                },
                _ => p,
            };
        }
        match exec(conn.publish(p), opts) {
            None => Res::Cancelled,
            Some(Ok(Some(op))) => {
                handle = Some(op);
                Res::OkOp
            }
            Some(Ok(None)) => Res::Ok,
            Some(Err(PubError::Payload(()))) => Res::Payload,
            Some(Err(PubError::Session(e))) => map_err(e),
        }
    };
    // C17: with nothing in flight (the client's own view) there is no window to be full and the
    // arena is empty: a publish cannot be "not ready" (tiny arenas answer BufferTooSmall)
    if res == Res::NotReady && was_live && conn.is_connected() && quiescent_before && with(|w| w.cfg.tx_len >= 16) {
        with(|w| {
            w.violate(
                "C17",
                "not-ready-although-nothing-is-in-flight".into(),
                format!("publish (QoS {}) returned NotReady on a publish-quiescent session: capacity that was released has not been recovered", spec.qos),
            )
        });
    }
    // A publish that is refused locally leaves nothing behind: what the session accepts next is
    // what it accepted before (publish() never reads, so no acknowledgement can have changed it).
    if matches!(res, Res::InvalidRequest | Res::NotReady | Res::PacketTooLarge | Res::BufferTooSmall | Res::Payload | Res::InflightExhausted) && was_live && conn.is_connected() {
        let cap_after = [conn.can_publish(QoS::AtMostOnce), conn.can_publish(QoS::AtLeastOnce), conn.can_publish(QoS::ExactlyOnce)];
        if cap_after != cap_before {
            let prop = match res {
                Res::InvalidRequest => "C19",
                Res::NotReady | Res::InflightExhausted => "C06",
                Res::PacketTooLarge => "C14",
                _ => "C17",
            };
            with(|w| {
                w.probe("refused_publish_capacity_compared");
                w.violate(
                    prop,
                    format!("refused-publish-changed-capacity/{}", res.name()),
                    format!("can_publish(QoS 0/1/2) was {:?} before and is {:?} after a publish that was refused with {}", cap_before, cap_after, res.name()),
                )
            });
        }
    }
    with(|w| {
        check_result(w, "publish", &res, was_live, io_err_before);
        settle_req(w, ri, &res, handle);
        if (res == Res::Cancelled || res == Res::WriteZero) && eff_qos == 0 {
            // not cancel-safe / a contract-violating transport: part of the packet may be on the
            // wire and is not tracked, the application must give the connection up
            w.qos0_cancelled = true;
        }
        // C19: the handle matches the QoS actually used
        match (&res, eff_qos) {
            (Res::OkOp, 0) => w.violate("C19", "handle-for-qos0".into(), "publish at effective QoS 0 returned a handle".into()),
            (Res::Ok, q) if q > 0 => w.violate(
                "C19",
                "no-handle-for-qos>0".into(),
                format!("publish at effective QoS {q} returned no handle"),
            ),
            _ => {}
        }
        if overlong && matches!(res, Res::Ok | Res::OkOp) {
            w.violate("C09", "overlong-field-accepted".into(), format!("publish with a field longer than 65535 bytes returned {}", res.name()));
        }
        if spec.payload_fails && matches!(res, Res::Ok | Res::OkOp) {
            w.violate("C09", "payload-error-ignored".into(), format!("payload serializer failed but publish returned {}", res.name()));
        }
        if spec.payload_fails {
            w.reqs[ri].must_refuse = true;
        }
        let _ = quiescent_before;
    });
    after_op(conn);
    res
}

pub struct SubSpec {
    pub tag: u32,
    pub filters: Vec<SubFilter>,
    pub props: Vec<Prop>,
}

/// Avoidance guard (see gen_publish): is there room for `size` more retained bytes?
pub fn guard_room(w: &World, size: usize) -> bool {
    if !w.cfg.guards {
        return true;
    }
    let need = connect_need(w);
    let ep = w.epoch;
    let retained: usize = w
        .reqs
        .iter()
        .filter(|r| r.epoch == ep && !r.invalidated && r.accept != Accept::NotAccepted && r.qos > 0 && !matches!(r.phase, Phase::Done(_)) && r.phase != Phase::Release)
        .map(|r| r.first_tx.as_ref().map_or_else(|| codec::encode(&r.expected).len() + 2, |b| b.len()))
        .sum();
    need + retained + size <= w.cfg.tx_len
}

pub fn gen_subscribe(w: &mut World) -> SubSpec {
    let tag = new_tag(w);
    let n = 1 + w.tape.choose(3);
    let filters = (0..n)
        .map(|i| SubFilter {
            filter: format!("f{}/{}{}", tag, i, ["", "/#", "/+/x", "/é", "/+/温度"][w.tape.choose(5) as usize]),
            max_qos: w.tape.choose(3) as u8,
            no_local: w.tape.chance(1, 3),
            rap: w.tape.chance(1, 3),
            retain_handling: w.tape.choose(3) as u8,
        })
        .collect();
    let mut props = gen_user_props(w, 2);
    if w.tape.chance(1, 3) {
        props.push(Prop { id: 0x0B, val: PVal::Var([1u32, 127, 128, 16383, 16384, 268_435_455][w.tape.choose(6) as usize]) });
    }
    SubSpec { tag, filters, props }
}

pub fn do_subscribe(conn: &mut Conn<'_, '_>, spec: &SubSpec) -> Res {
    let io_err_before = with(|w| {
        label(w, "subscribe");
        w.conns[w.cur].io_error.is_some()
    });
    let was_live = conn.is_connected();
    let expected = Packet::Subscribe { id: 0, props: spec.props.clone(), filters: spec.filters.clone() };
    let ri = with(|w| register_req(w, spec.tag, ReqKind::Sub, 1, expected, false));
    let mprops: Vec<Property<'_>> = spec.props.iter().map(to_minimq).collect();
    let filters: Vec<TopicFilter<'_>> = spec
        .filters
        .iter()
        .enumerate()
        .map(|(fi, f)| {
            // the four builder calls in one of the 24 possible orders (a function of the request
            // tag): no setter may disturb what another one has set
            let mut order = [0u8, 1, 2, 3];
            let mut h = crate::util::mix(spec.tag as u64, 0x0B7 + fi as u64);
            for i in (1..4).rev() {
                order.swap(i, (h % (i as u64 + 1)) as usize);
                h /= 7;
            }
            let mut o = SubscriptionOptions::default();
            for step in order {
                o = match step {
                    0 => o.maximum_qos(qos_of(f.max_qos)),
                    1 => o.retain_behavior(match f.retain_handling {
                        0 => RetainHandling::Immediately,
                        1 => RetainHandling::IfSubscriptionDoesNotExist,
                        _ => RetainHandling::Never,
                    }),
                    2 if f.no_local => o.ignore_local_messages(),
                    3 if f.rap => o.retain_as_published(),
                    _ => o,
                };
            }
            TopicFilter::new(&f.filter).options(o)
        })
        .collect();
    let opts = with(|w| std_opts(w, true));
    let mut handle = None;
    let res = match exec(conn.subscribe(&filters, &mprops), opts) {
        None => Res::Cancelled,
        Some(Ok(op)) => {
            handle = Some(op);
            Res::OkOp
        }
        Some(Err(e)) => map_err(e),
    };
    with(|w| {
        check_result(w, "subscribe", &res, was_live, io_err_before);
        settle_req(w, ri, &res, handle);
    });
    after_op(conn);
    res
}

pub struct UnsubSpec {
    pub tag: u32,
    pub filters: Vec<String>,
    pub props: Vec<Prop>,
}

pub fn gen_unsubscribe(w: &mut World) -> UnsubSpec {
    let tag = new_tag(w);
    let n = 1 + w.tape.choose(3);
    let filters = (0..n).map(|i| format!("u{}/{}{}", tag, i, utf8_tail(w))).collect();
    let props = gen_user_props(w, 2);
    UnsubSpec { tag, filters, props }
}

pub fn do_unsubscribe(conn: &mut Conn<'_, '_>, spec: &UnsubSpec) -> Res {
    let io_err_before = with(|w| {
        label(w, "unsubscribe");
        w.conns[w.cur].io_error.is_some()
    });
    let was_live = conn.is_connected();
    let expected = Packet::Unsubscribe { id: 0, props: spec.props.clone(), filters: spec.filters.clone() };
    let ri = with(|w| register_req(w, spec.tag, ReqKind::Unsub, 1, expected, false));
    let mprops: Vec<Property<'_>> = spec.props.iter().map(to_minimq).collect();
    let filters: Vec<&str> = spec.filters.iter().map(|s| s.as_str()).collect();
    let opts = with(|w| std_opts(w, true));
    let mut handle = None;
    let res = match exec(conn.unsubscribe(&filters, &mprops), opts) {
        None => Res::Cancelled,
        Some(Ok(op)) => {
            handle = Some(op);
            Res::OkOp
        }
        Some(Err(e)) => map_err(e),
    };
    with(|w| {
        check_result(w, "unsubscribe", &res, was_live, io_err_before);
        settle_req(w, ri, &res, handle);
    });
    after_op(conn);
    res
}

#[derive(Copy, Clone, PartialEq, Eq, Debug)]
pub enum Wait {
    Poll,
    Recv,
    Drive,
}

/// C04: a delivered message must be the next expected delivery, exactly as the broker sent it.
fn check_delivery(w: &mut World, d: &Delivered) {
    let cur = w.cur;
    w.delivered.push(d.clone());
    if w.raw_mode {
        return;
    }
    // a delivery the model left open?
    if let Some(pos) = w.conns[cur].optional_deliver.iter().position(|bi| w.bmsgs[*bi].topic == d.topic) {
        let front_matches = w.conns[cur].expect_deliver.front().is_some_and(|bi| w.bmsgs[*bi].topic == d.topic);
        if !front_matches {
            w.conns[cur].optional_deliver.remove(pos);
            return;
        }
    }
    let Some(bi) = w.conns[cur].expect_deliver.pop_front() else {
        w.violate(
            "C04",
            "unexpected-delivery".into(),
            format!("application received {:?} but nothing was due (duplicate QoS 2 or phantom message)", d.topic),
        );
        return;
    };
    let m = &mut w.bmsgs[bi];
    m.deliveries += 1;
    let same_props = {
        let mut a = m.props.clone();
        let mut b = d.props.clone();
        // keep order for user properties and subscription ids (both repeatable), sort the rest
        let key = |p: &Prop| if p.id == 0x26 || p.id == 0x0B { 1 } else { 0 };
        a.sort_by_key(|p| (key(p), if key(p) == 0 { p.id } else { 0 }));
        b.sort_by_key(|p| (key(p), if key(p) == 0 { p.id } else { 0 }));
        a == b
    };
    if m.topic != d.topic || m.payload != d.payload || m.qos != d.qos || m.retain != d.retain || !same_props {
        let what = if m.topic != d.topic {
            "topic"
        } else if m.payload != d.payload {
            "payload"
        } else if m.qos != d.qos {
            "qos"
        } else if m.retain != d.retain {
            "retain"
        } else {
            "properties"
        };
        let detail = format!(
            "delivered topic={:?} qos={} retain={} payload_len={} props={:?}; sent topic={:?} qos={} retain={} payload_len={} props={:?}",
            d.topic, d.qos, d.retain, d.payload.len(), d.props, m.topic, m.qos, m.retain, m.payload.len(), m.props
        );
        w.violate("C04", format!("delivery-differs/{what}"), detail);
    }
}

pub fn do_wait(conn: &mut Conn<'_, '_>, kind: Wait, opts: Option<ExecOpts>) -> Res {
    let (io_err_before, moved_before) = with(|w| {
        label(
            w,
            match kind {
                Wait::Poll => "poll",
                Wait::Recv => "recv",
                Wait::Drive => "drive",
            },
        );
        if w.app_waiting_since.is_none() {
            w.app_waiting_since = Some(clock::now());
        }
        (w.conns[w.cur].io_error.is_some(), w.conns[w.cur].bytes_moved)
    });
    let was_live = conn.is_connected();
    let opts = opts.unwrap_or_else(|| with(|w| std_opts(w, true)));
    let res = match kind {
        Wait::Poll => match exec(async { conn.poll().await.map(|o| o.map(|m| own_msg(&m))) }, opts) {
            None => Res::Cancelled,
            Some(Ok(Some(m))) => Res::OkMsg(m),
            Some(Ok(None)) => Res::OkNone,
            Some(Err(e)) => map_err(e),
        },
        Wait::Recv => match exec(async { conn.recv().await.map(|m| own_msg(&m)) }, opts) {
            None => Res::Cancelled,
            Some(Ok(m)) => Res::OkMsg(m),
            Some(Err(e)) => map_err(e),
        },
        Wait::Drive => match exec(async { conn.drive().await.map(|o| o.map(|m| own_msg(&m))) }, opts) {
            None => Res::Cancelled,
            Some(Ok(Some(m))) => Res::OkMsg(m),
            Some(Ok(None)) => Res::OkNone,
            Some(Err(e)) => map_err(e),
        },
    };
    let opname = match kind {
        Wait::Poll => "poll",
        Wait::Recv => "recv",
        Wait::Drive => "drive",
    };
    let live_after = conn.is_connected();
    with(|w| {
        check_result(w, opname, &res, was_live, io_err_before);
        let cur = w.cur;
        if res == Res::PacketTooLarge && live_after && w.conns[cur].established && !w.ids_ambiguous && !w.raw_mode {
            // The connection stays up, so this is not the acknowledgement that does not fit
            // (C14): the client refuses to (re)transmit something it holds. That is only right
            // if one of the packets it holds really exceeds the Maximum Packet Size of *this*
            // connection's CONNACK.
            let limit = w.conns[cur].max_packet_size;
            let ep = w.epoch;
            let mut unknown = false;
            let mut too_large = false;
            let mut blocked: Option<(u32, &'static str, &'static str)> = None;
            for r in w.reqs.iter() {
                if r.epoch != ep || r.invalidated || r.accept == Accept::NotAccepted || matches!(r.phase, Phase::Done(_)) || r.qos == 0 {
                    continue;
                }
                if r.ambiguous || r.accept == Accept::Maybe {
                    unknown = true;
                    continue;
                }
                let len = match (r.phase, &r.first_tx) {
                    // a PUBREL has 4 bytes, 5 with a reason code, 6 with an empty property block:
                    // any of these forms is the client's choice
                    (Phase::Release, _) => 6,
                    (_, Some(b)) => b.len(),
                    _ => {
                        unknown = true;
                        continue;
                    }
                };
                if limit.map_or(false, |m| len as u64 > m as u64) {
                    too_large = true;
                } else if blocked.is_none() && r.tx_by_conn.get(&cur).copied().unwrap_or(0) == 0 && w.conns[cur].must_replay.contains(&r.tag) {
                    blocked = Some(match (r.kind, r.qos, r.phase) {
                        (ReqKind::Pub, 1, _) => (r.tag, "C02", "pub1"),
                        (ReqKind::Pub, _, Phase::Release) => (r.tag, "C03", "pubrel"),
                        (ReqKind::Pub, _, _) => (r.tag, "C03", "pub2"),
                        (ReqKind::Sub, _, _) => (r.tag, "C05", "sub"),
                        _ => (r.tag, "C05", "unsub"),
                    });
                }
            }
            let carried = w.conns[cur].owed_acks.is_empty() && !w.conns[cur].carry_acks.is_empty();
            let owed = w.conns[cur].owed_acks.front().copied().or(w.conns[cur].carry_acks.front().copied());
            w.probe(if owed.is_some() { "packet_too_large_on_live_connection_with_owed_ack" } else { "packet_too_large_on_live_connection" });
            if let (false, false, Some((t, id, _)), true) = (unknown, too_large, owed, limit.map_or(false, |m| m < 6)) {
                // C14: nothing the session holds is too large, so it is the acknowledgement it
                // owes that does not fit (2 to 6 bytes, the form is the client's choice): "the
                // connection is closed instead" - this one is still open
                w.violate(
                    "C14",
                    format!("ack-does-not-fit-but-connection-stays-open/{}{}", codec::type_name_of(t), if carried { "/carried-over-from-an-earlier-connection" } else { "" }),
                    format!("{opname} returned PacketTooLarge (Maximum Packet Size {:?}) while {} {id} is owed, and the handle is still connected", limit, codec::type_name_of(t)),
                );
            } else if !unknown && !too_large {
                if let Some((tag, prop, kind_s)) = blocked {
                    w.violate(
                        prop,
                        format!("not-retransmitted-on-resumed-connection/{kind_s}/refused-as-too-large-although-it-fits"),
                        format!(
                            "{opname} returned PacketTooLarge on connection {cur} (Maximum Packet Size of its CONNACK: {:?}) although every packet the session holds fits; request tag {tag} is not retransmitted",
                            limit
                        ),
                    );
                }
            }
        }
        match &res {
            Res::OkMsg(d) => check_delivery(w, d),
            Res::OkNone if kind == Wait::Poll => {
                // C16: poll() returns without a message only after real wire progress
                if w.conns[cur].bytes_moved == moved_before {
                    w.violate(
                        "C16",
                        "poll-returned-without-progress".into(),
                        "poll() returned Ok(None) although no byte moved on the wire".into(),
                    );
                }
            }
            Res::BufferTooSmall if !w.conns[cur].owed_acks.is_empty() && !w.raw_mode => {
                let (t, _, _) = w.conns[cur].owed_acks[0];
                w.violate(
                    "C04",
                    format!("owed-ack-not-sent/buffer-too-small/{}", codec::type_name_of(t)),
                    format!("{opname} failed with BufferTooSmall while an acknowledgement for an inbound packet is owed: acknowledgements must not depend on free transmit-arena space"),
                );
            }
            Res::InflightExhausted => {
                w.violate(
                    "C06",
                    format!("inflight-exhausted-from-{opname}"),
                    format!("{opname} reported in-flight metadata exhaustion while handling inbound traffic (an exchange or acknowledgement was dropped)"),
                );
            }
            _ => {}
        }
        // every message whose bytes the client consumed completely must have been handed over
        if res == Res::PacketTooLarge {
            // C14: the mandatory acknowledgement does not fit: the connection is closed instead;
            // nothing was acknowledged, so nothing has to be delivered either
            w.conns[cur].expect_deliver.clear();
            w.conns[cur].owed_acks.pop_back();
        }
        if !matches!(res, Res::OkMsg(_)) && !w.conns[cur].expect_deliver.is_empty() {
            let bi = w.conns[cur].expect_deliver[0];
            {
                let t = w.bmsgs[bi].topic.clone();
                w.violate(
                    "C04",
                    format!("message-not-delivered/after={}", res.name()),
                    format!("inbound PUBLISH {t} was consumed completely but {opname} returned {}", res.name()),
                );
                // C08: "every spec-valid packet ... is accepted with exactly the field values
                // sent" - this one was valid and within what the client advertised
                if !res.is_fatal() && !w.raw_mode {
                    w.violate(
                        "C08",
                        "valid-packet-not-accepted/inbound-publish-not-delivered".into(),
                        format!("the valid inbound PUBLISH {t} was consumed but not handed to the application ({opname} returned {})", res.name()),
                    );
                }
                w.conns[cur].expect_deliver.clear();
            }
        }
        // C10 (3'), every profile: a poll/recv/drive that *starts* after the round-trip bound of
        // an unanswered PINGREQ has passed finds the timeout due before it does anything else
        if !matches!(res, Res::Disconnected | Res::Transport(_) | Res::InvalidPacket) && w.conns[cur].established && !w.cut {
            if let Some(t0) = w.conns[cur].pingreq_outstanding {
                if w.op_start_t > t0 + 5 * US_PER_S + 2 * US_PER_MS {
                    w.violate(
                        "C10",
                        format!("keepalive-timeout-missed/operation-started-after-the-bound/after={}", res.name()),
                        format!(
                            "PINGREQ completed (flushed) at t={t0} is unanswered; {opname} was called at t={} - after the 5 s bound - and returned {} instead of Disconnected",
                            w.op_start_t,
                            res.name()
                        ),
                    );
                    w.conns[cur].pingreq_outstanding = None;
                }
            }
        }
        // C10 (3): an unanswered PINGREQ must end a continuous wait at the 5 s bound
        if w.cfg.profile == Profile::Timing && !matches!(res, Res::Disconnected | Res::Transport(_) | Res::InvalidPacket) {
            if let (Some(t0), Some(since)) = (w.conns[cur].pingreq_outstanding, w.app_waiting_since) {
                if since <= t0 && clock::now() > t0 + 5 * US_PER_S + 2 * US_PER_MS && w.conns[cur].established {
                    w.violate(
                        "C10",
                        format!("keepalive-timeout-missed/after={}", res.name()),
                        format!(
                            "PINGREQ completed at t={} is unanswered, the application kept waiting, it is now t={} and {opname} returned {} instead of Disconnected",
                            t0,
                            clock::now(),
                            res.name()
                        ),
                    );
                    w.conns[cur].pingreq_outstanding = None;
                }
            }
        }
        // C16: poll()/recv() may only park with nothing to do when nothing is left to send
        if res == Res::Cancelled && w.last_cancel_idle && w.conns[cur].established && !w.ids_ambiguous && kind != Wait::Drive && !w.raw_mode {
            let ep = w.epoch;
            let unsent = w.reqs.iter().find(|r| {
                r.epoch == ep
                    && !r.invalidated
                    && !r.ambiguous
                    && r.accept == Accept::Accepted
                    && r.qos > 0
                    && r.phase == Phase::AwaitAck
                    && (r.conn_issued == cur || w.conns[cur].must_replay.contains(&r.tag))
                    && r.tx_by_conn.get(&cur).copied().unwrap_or(0) == 0
            });
            if let Some(r) = unsent {
                let tag = r.tag;
                w.violate(
                    "C16",
                    "parked-with-unsent-packet".into(),
                    format!("{opname} waits for input with nothing to wake it although accepted request tag {tag} has not been sent on this connection"),
                );
            } else if let Some(&(t, id, _)) = w.conns[cur].owed_acks.front() {
                w.violate(
                    "C16",
                    format!("parked-with-unsent-ack/{}", codec::type_name_of(t)),
                    format!("{opname} waits for input with nothing to wake it although the acknowledgement {} {id} is still owed", codec::type_name_of(t)),
                );
            }
        }
        if res == Res::Cancelled && w.last_cancel_idle && w.conns[cur].established && w.conns[cur].session_present && !w.ids_ambiguous && kind != Wait::Drive {
            // The client sits idle on a resumed connection: everything that was unacknowledged
            // when the session was resumed must have been retransmitted by now.
            let pending: Vec<u32> = w.conns[cur].must_replay.iter().copied().collect();
            for tag in pending {
                let r = &w.reqs[w.req_by_tag[&tag]];
                if r.invalidated || r.ambiguous || matches!(r.phase, Phase::Done(_)) || r.accept != Accept::Accepted {
                    continue;
                }
                let (prop, kind_s) = match (r.kind, r.qos, r.phase) {
                    (ReqKind::Pub, 1, _) => ("C02", "pub1"),
                    (ReqKind::Pub, _, Phase::Release) => ("C03", "pubrel"),
                    (ReqKind::Pub, _, _) => ("C03", "pub2"),
                    (ReqKind::Sub, _, _) => ("C05", "sub"),
                    _ => ("C05", "unsub"),
                };
                w.violate(
                    prop,
                    format!("not-retransmitted-on-resumed-connection/{kind_s}"),
                    format!("request tag {tag} was unacknowledged when connection {cur} resumed the session, the client now waits idle and has not retransmitted it"),
                );
                break;
            }
        }
    });
    // C17: "after everything has been acknowledged" nothing is held any more. The ledger says
    // when that is: every accepted request of this session has had its final acknowledgement
    // (successful or not), nothing is owed to the broker, and the client sits idle.
    if res == Res::Cancelled && conn.is_connected() {
        let settled = with(|w| {
            let cur = w.cur;
            let ep = w.epoch;
            w.last_cancel_idle
                && w.conns[cur].established
                && !w.ids_ambiguous
                && !w.session_ambiguous
                && !w.raw_mode
                && !w.cut
                && w.conns[cur].owed_acks.is_empty()
                && w.conns[cur].carry_acks.is_empty()
                && w.reqs.iter().all(|r| r.epoch != ep || r.invalidated || r.qos == 0 || r.accept == Accept::NotAccepted || (r.accept == Accept::Accepted && !r.ambiguous && matches!(r.phase, Phase::Done(_))))
        });
        if settled && !conn.session().is_publish_quiescent() {
            with(|w| {
                w.violate(
                    "C17",
                    "not-quiescent-although-everything-is-acknowledged".into(),
                    "every accepted request has had its final acknowledgement and nothing is owed, the client sits idle, yet the session still holds in-flight state".into(),
                )
            });
        }
    }
    after_op(conn);
    res
}

pub struct DiscSpec {
    pub reason: Option<u8>,
    pub props: Option<Vec<Prop>>,
}

pub fn do_disconnect(conn: &mut Conn<'_, '_>, spec: &DiscSpec) -> Res {
    let io_err_before = with(|w| {
        label(w, "disconnect");
        w.conns[w.cur].io_error.is_some()
    });
    let was_live = conn.is_connected();
    let mprops: Vec<Property<'_>> = spec.props.iter().flatten().map(to_minimq).collect();
    let d = match (spec.reason, &spec.props) {
        (None, None) => Disconnect::success(),
        (Some(r), None) => Disconnect::with_reason(ReasonCode::from(r)),
        (r, Some(_)) => {
            let base = match r {
                Some(r) => Disconnect::with_reason(ReasonCode::from(r)),
                None => Disconnect::success(),
            };
            base.with_properties(&mprops)
        }
    };
    with(|w| {
        if was_live {
            w.disconnect_expected = Some(Packet::Disconnect { reason: spec.reason, props: spec.props.clone() });
        }
    });
    let opts = with(|w| std_opts(w, true));
    let res = match exec(conn.disconnect_with(d), opts) {
        None => Res::Cancelled,
        Some(Ok(())) => Res::Ok,
        Some(Err(e)) => map_err(e),
    };
    with(|w| {
        check_result(w, "disconnect", &res, was_live, io_err_before);
        let cur = w.cur;
        if res == Res::Cancelled {
            w.conns[cur].disconnect_cancelled = true;
        }
        if res == Res::Ok && was_live && !w.conns[cur].saw_disconnect && !w.conns[cur].wire_broken {
            let c = &w.conns[cur];
            let inside = if c.parsed != c.wire.len() { codec::type_name_of(c.wire[c.parsed] >> 4) } else { "none" };
            w.violate(
                "C01",
                format!("disconnect-not-a-whole-packet/inside={inside}"),
                "disconnect() returned Ok but no complete DISCONNECT packet is on the wire".into(),
            );
        }
        if res != Res::Cancelled && !matches!(res, Res::PacketTooLarge | Res::InvalidRequest | Res::BufferTooSmall) {
            // after disconnect() the handle is dead whatever the write outcome
            w.disconnect_expected = None;
        }
        if matches!(res, Res::PacketTooLarge | Res::InvalidRequest | Res::BufferTooSmall) {
            w.disconnect_expected = None;
        }
    });
    after_op(conn);
    res
}

/// C11: a dead handle stays dead and never touches the transport.
pub fn dead_handle_probe(conn: &mut Conn<'_, '_>) {
    let n = with(|w| {
        w.must_be_dead = true;
        w.expect = None; // nothing further is read on a dead handle
        w.probe("dead_handle_probe");
        1 + w.tape.choose(6)
    });
    for round in 0..n {
        let live = conn.is_connected();
        let cp = [conn.can_publish(QoS::AtMostOnce), conn.can_publish(QoS::AtLeastOnce), conn.can_publish(QoS::ExactlyOnce)];
        with(|w| {
            if live {
                w.violate("C11", "is-connected-after-death".into(), "is_connected() is true after a fatal result".into());
            }
            if cp.iter().any(|b| *b) {
                w.violate("C11", "can-publish-after-death".into(), format!("can_publish = {:?} after a fatal result", cp));
            }
        });
        let which = with(|w| w.tape.choose(8));
        let quiescent_before = conn.session().is_publish_quiescent();
        let (name, res): (&'static str, Res) = match which {
            0 => ("poll", do_wait(conn, Wait::Poll, None)),
            1 => ("recv", do_wait(conn, Wait::Recv, None)),
            2 => ("drive", do_wait(conn, Wait::Drive, None)),
            3 | 4 | 5 => {
                let spec = with(|w| gen_publish(w, which as u8 - 3));
                ("publish", do_publish(conn, &spec))
            }
            6 => {
                let spec = with(gen_subscribe);
                ("subscribe", do_subscribe(conn, &spec))
            }
            _ => {
                if round % 2 == 0 {
                    let spec = with(gen_unsubscribe);
                    ("unsubscribe", do_unsubscribe(conn, &spec))
                } else {
                    ("disconnect", do_disconnect(conn, &DiscSpec { reason: None, props: None }))
                }
            }
        };
        let quiescent_after = conn.session().is_publish_quiescent();
        with(|w| {
            if quiescent_after != quiescent_before {
                w.violate(
                    "C19",
                    format!("request-on-dead-handle-changed-state/op={name}"),
                    format!("{name} on a dead handle changed is_publish_quiescent() from {quiescent_before} to {quiescent_after}"),
                );
            }
            let want = if name == "disconnect" { Res::Ok } else { Res::Disconnected };
            if res != want {
                w.violate(
                    "C11",
                    format!("dead-handle-result/op={name}/got={}", res.name()),
                    format!("{name} on a dead handle returned {} instead of {}", res.name(), want.name()),
                );
            }
        });
    }
    with(|w| w.must_be_dead = false);
}

pub fn close_conn(w: &mut World, how: &'static str) {
    let cur = w.cur;
    w.conns[cur].closed_by_client = true;
    w.must_be_dead = false;
    w.app_waiting_since = None;
    w.kind(45);
    w.log(|| format!("app: connection {cur} ends ({how})"));
    // acknowledgements still owed may legitimately be re-sent on a resumed connection
    let carry = std::mem::take(&mut w.conns[cur].carry_acks);
    let owed = std::mem::take(&mut w.conns[cur].owed_acks);
    let unflushed = std::mem::take(&mut w.conns[cur].unflushed_acks);
    w.carry_over_acks.extend(unflushed);
    w.carry_over_acks.extend(carry);
    w.carry_over_acks.extend(owed);
    w.conns[cur].expect_deliver.clear();
    // whatever the broker withheld on this connection is gone with it
    w.withheld.retain(|(c, _)| *c != cur);
    w.withheld_comp.retain(|(c, _)| *c != cur);
}

pub fn new_conn(w: &mut World) -> SimIo {
    let id = w.conns.len();
    w.conns.push(world::ConnState::new(id));
    w.cur = id;
    w.stats.conns += 1;
    w.expect = None;
    SimIo { conn: id }
}

pub enum ConnectOutcome<'a, 'b> {
    Up(Conn<'a, 'b>),
    Failed(Res),
}

pub fn do_connect<'a, 'b>(session: &'a mut Session<'b>, cancellable: bool) -> ConnectOutcome<'a, 'b> {
    let io = with(|w| {
        let io = new_conn(w);
        label(w, "connect");
        io
    });
    let opts = with(|w| {
        let mut o = std_opts(w, cancellable);
        if !cancellable {
            o.budget_us = None;
        }
        o
    });
    // (the failure arms below look at the session again; the borrow checker cannot see that the
    // borrow handed to connect() has ended there, because the success arm returns it)
    let sp: *const Session<'b> = session;
    let r = exec(session.connect(io), opts);
    match r {
        None => {
            with(|w| {
                check_result(w, "connect", &Res::Cancelled, true, false);
                close_conn(w, "connect cancelled");
            });
            // C18: a connect that did not succeed replaces no session - every handle still says
            // what it said before (unless a CONNACK that did replace the session was consumed)
            check_handles(unsafe { &*sp });
            ConnectOutcome::Failed(Res::Cancelled)
        }
        Some(Err(e)) => {
            let res = map_err(e);
            with(|w| {
                check_result(w, "connect", &res, true, false);
                close_conn(w, "connect failed");
            });
            check_handles(unsafe { &*sp });
            ConnectOutcome::Failed(res)
        }
        Some(Ok(conn)) => {
            let ev = conn.connect_event();
            with(|w| {
                check_result(w, "connect", &Res::Ok, true, false);
                let cur = w.cur;
                let c = &w.conns[cur];
                if w.raw_mode {
                    // raw byte scenarios judge the handshake themselves
                } else if !c.established {
                    w.violate(
                        "C05",
                        "connected-without-connack".into(),
                        "connect() returned Ok although no successful CONNACK was consumed".into(),
                    );
                } else {
                    let want = if c.session_present { ConnectEvent::Reconnected } else { ConnectEvent::Connected };
                    if ev != want {
                        w.violate(
                            "C05",
                            format!("connect-event/got={:?},want={:?}", ev, want),
                            format!("CONNACK session_present={} but connect_event() = {:?}", c.session_present, ev),
                        );
                    }
                }
            });
            after_op(&conn);
            ConnectOutcome::Up(conn)
        }
    }
}
