//! Special scenarios (enumerations and twin runs).

use crate::util::Tape;
use crate::world::{Profile, RunCfg};
use crate::Scenario;

pub fn extra_scenarios() -> Vec<Scenario> {
    vec![]
}

pub fn implemented(_s: Scenario) -> bool {
    false
}

pub fn cfg_for(_scn: Scenario, t: &mut Tape, _extra: u64) -> RunCfg {
    crate::run::gen_cfg(t, Profile::General)
}

pub fn run_scenario(_scn: Scenario, _extra: u64) {}
