//! Special scenarios: twin runs (C13 cancellation, C15 fragmentation, C17 ageing), fault
//! enumeration (C11/C12), legality table (C19), byte strings (C08).

use crate::app::*;
use crate::broker;
use crate::clock;
use crate::codec::{self, Packet};
use crate::run::{self, with_session};
use crate::util::{mix, Tape};
use crate::world::{self, with, Accept, OpWeights, Phase, Profile, ReqKind, RunCfg, Violation, World};
use crate::Scenario;

pub fn extra_scenarios() -> Vec<Scenario> {
    vec![
        Scenario::CancelTwin,
        Scenario::FragTwin(0),
        Scenario::FragTwin(1),
        Scenario::FragTwin(2),
        Scenario::FragTwin(3),
        Scenario::FragTwin(4),
        Scenario::FragTwin(5),
        Scenario::FaultEnum(0),
        Scenario::FaultEnum(1),
        Scenario::Table,
        Scenario::AgeTwin,
        Scenario::Bytes(0),
        Scenario::Bytes(1),
        Scenario::Bytes(2),
        Scenario::Bytes(3),
    ]
}

pub fn implemented(s: Scenario) -> bool {
    extra_scenarios().contains(&s)
}

fn twin_cfg(t: &mut Tape) -> RunCfg {
    let mut c = run::gen_cfg(t, Profile::Twin);
    c.profile = Profile::Twin;
    c.keepalive_s = 0;
    c.session_expiry = 3600;
    c.tx_len = [1152usize, 4096, 512][t.choose(3) as usize];
    c.rx_len = [128usize, 256, 1024, 64][t.choose(4) as usize];
    c.id_burn = 0;
    c.guards = false;
    c.payload_law = t.choose(2);
    c.delay_law = 0;
    c.p_io_err = 0;
    c.p_write_zero = 0;
    c.p_slow_write = 0;
    c.p_peer_stall = 0;
    c.p_connack_fault = 0;
    c.p_session_loss = 0;
    c.p_small_limits = 0;
    c.p_stale_ack = 0;
    c.p_no_pingresp = 0;
    c.p_withhold_ack = [0, 200, 500][t.choose(3) as usize];
    c.p_fail_reason = [0, 100][t.choose(2) as usize];
    c.p_dup_inbound = [0, 200][t.choose(2) as usize];
    c.downgrade = false;
    c.zero_time_io = false;
    c
}

pub fn cfg_for(scn: Scenario, t: &mut Tape, extra: u64) -> RunCfg {
    match scn {
        Scenario::CancelTwin => {
            let mut c = twin_cfg(t);
            c.p_stall = [150, 300, 500][t.choose(3) as usize];
            c.p_partial_write = [200, 600, 900][t.choose(3) as usize];
            c.p_frag_read = [0, 400][t.choose(2) as usize];
            c.p_cancel = [200, 400, 700][t.choose(3) as usize];
            // a third of the runs have a broker Receive Maximum of 1..3: a unit of the send
            // quota lost to a cancellation is felt at once
            c.twin_receive_max = [0u16, 0, 0, 0, 1, 2, 3, 1, 2][t.choose(9) as usize];
            match t.choose(3) {
                1 => {
                    // timed variant: a keep-alive runs and the application does something else
                    // for 0.6 .. 1.4 s after an operation was cancelled (compared modulo PINGREQs)
                    c.keepalive_s = 1 + t.choose(2) as u16;
                }
                2 => {
                    // keep-alive with the same timing in both executions (time passes only in
                    // script steps; cancellations take none): compared PINGREQs included
                    c.keepalive_s = 1 + t.choose(2) as u16;
                    c.twin_same_timing = true;
                }
                _ => {}
            }
            c
        }
        Scenario::FragTwin(k) => {
            let mut c = twin_cfg(t);
            c.p_stall = 0;
            c.p_cancel = 0;
            c.p_partial_write = [300, 700, 950][t.choose(3) as usize];
            c.p_frag_read = [300, 700, 950][t.choose(3) as usize];
            if k == 1 && t.chance(1, 8) {
                // one run in eight has a 300 kB arena and publishes longer than 64 KiB
                c.big = 1;
                c.tx_len = 300_000;
            }
            if k == 1 {
                match t.choose(3) {
                    1 => {
                        // timed variant: a keep-alive runs and some writes of the fragmented run
                        // take simulated time (the whole-write run takes none): compared modulo
                        // PINGREQs
                        c.keepalive_s = 1 + t.choose(2) as u16;
                        c.p_slow_write = 150;
                        // ... and in two thirds of them the application's polls have a timeout
                        // shorter than a slow write: the poll is dropped while a packet is half
                        // accepted (never in the whole-write run, whose writes take no time)
                        c.twin_poll_budget_us = [0, 120, 250][t.choose(3) as usize] * clock::US_PER_MS;
                        // ... and in half of those also its QoS 1/2 publishes, subscribes and
                        // unsubscribes: a request given up while its packet is half accepted is
                        // finished by whatever the application does next
                        c.twin_request_budget = t.chance(1, 2);
                    }
                    2 => {
                        // keep-alive variant with identical timing in both runs: time passes only
                        // in script steps (the application is busy elsewhere), fragmentation
                        // itself takes no time; compared byte for byte, PINGREQs included
                        c.keepalive_s = 1 + t.choose(2) as u16;
                    }
                    _ => {}
                }
            }
            if k == 2 {
                // fragments arrive with time gaps while the keep-alive timer runs: the library's
                // own deadline fires between fragments of one packet
                c.keepalive_s = 1;
                c.p_no_pingresp = 1000;
            }
            if k == 3 {
                // long packets (2- and 3-byte remaining length) in pieces 300 ms apart; either the
                // library's keep-alive deadline or an application-level timeout interrupts the
                // read between the pieces
                let app_timeout = (extra >> 8) & 1 == 1;
                c.keepalive_s = if app_timeout { 0 } else { 1 };
                c.p_no_pingresp = 1000;
            }
            if k == 4 {
                c.p_fail_reason = 0;
                c.p_withhold_ack = 0;
                c.p_dup_inbound = 0;
            }
            if k == 5 {
                // the application gives up inside a packet and reconnects: no keep-alive
                c.keepalive_s = 0;
            }
            if k == 0 || k == 2 || k == 3 || k == 4 || k == 5 {
                c.p_partial_write = 0;
                c.p_frag_read = 0;
                c.client_id = "c".into();
                c.will = None;
                c.auth = None;
                c.rx_len = if k == 3 || k == 5 { 20000 } else { 64 };
                c.tx_len = 256;
            }
            c
        }
        Scenario::FaultEnum(_) | Scenario::Table => {
            // the pre-state is a function of `extra` only (not of the batch seed)
            let pre = match scn {
                Scenario::FaultEnum(_) => extra / (9 * 28 * 10),
                _ => extra / crate::scen2::table_cases(),
            };
            let mut pt = Tape::generate(mix(0xFA17, pre));
            let mut c = run::gen_cfg(&mut pt, Profile::General);
            c.p_io_err = 0;
            c.p_write_zero = 0;
            c.p_connack_fault = 0;
            c.max_conns = 1 + (pre % 3) as u32;
            c.max_steps = 4 + (pre % 23) as u32;
            c.w.disconnect = 0;
            c.w.drop_conn = if pre % 3 == 0 { 0 } else { 2 };
            c.w.forget_conn = 0;
            c.w.invalid = 0;
            c.w.broker_fault = 0;
            c.guards = true;
            if c.tx_len < 256 {
                c.tx_len = 256;
            }
            if c.session_expiry == 0 {
                c.session_expiry = 3600;
            }
            let _ = t;
            c
        }
        Scenario::AgeTwin => {
            let mut c = run::gen_cfg(t, Profile::Aging);
            c.guards = true;
            c.p_small_limits = 0;
            c.downgrade = false;
            c.id_burn = 0;
            c.max_steps = 100 + t.choose(900);
            c.tx_len = [64usize, 96, 128, 256, 1152, 4096][t.choose(6) as usize];
            let need = 60 + c.client_id.len().max(12) + c.will.as_ref().map_or(0, |w| w.topic.len() + w.payload.len() + 40) + c.auth.as_ref().map_or(0, |a| a.0.len() + a.1.len() + 4);
            if c.tx_len < need {
                c.tx_len = need + 32;
            }
            c
        }
        Scenario::Bytes(_) => {
            let mut c = run::gen_cfg(t, Profile::Inbound);
            c.keepalive_s = 0;
            c.client_id = "b".into();
            c.will = None;
            c.auth = None;
            c.rx_len = match scn {
                Scenario::Bytes(1) => 512,
                Scenario::Bytes(3) => [16usize, 64, 127, 128, 129, 130, 131, 200, 256, 300, 512, 1000, 16383, 16384, 16385, 16386, 16500, 20000][t.choose(18) as usize],
                _ => 64,
            };
            c.tx_len = 256;
            c.session_expiry = 3600;
            c.id_burn = 0;
            c.downgrade = false;
            c.p_stall = 0;
            c.p_io_err = 0;
            c.p_write_zero = 0;
            c.p_slow_write = 0;
            c.p_peer_stall = 0;
            c.p_cancel = 0;
            c.p_partial_write = 0;
            c.p_frag_read = [0, 500, 1000][(extra % 3) as usize];
            c.p_connack_fault = 0;
            c.p_small_limits = 0;
            c.p_session_loss = 0;
            c.p_withhold_ack = 1000; // keep requests in flight so that acks have something to hit
            c.p_fail_reason = 0;
            c.delay_law = 0;
            c.w = OpWeights::default();
            c
        }
        Scenario::Program(p) => run::gen_cfg(t, p),
    }
}


pub fn run_scenario(scn: Scenario, extra: u64) {
    match scn {
        Scenario::CancelTwin => cancel_twin(),
        Scenario::FragTwin(0) => frag_enum(extra, false),
        Scenario::FragTwin(2) => frag_enum(extra, true),
        Scenario::FragTwin(3) => frag_long(extra),
        Scenario::FragTwin(4) => frag_loss(extra),
        Scenario::FragTwin(5) => frag_giveup(extra),
        Scenario::FragTwin(_) => frag_twin(),
        Scenario::FaultEnum(k) => crate::scen2::fault_enum(k, extra),
        Scenario::Table => crate::scen2::table(extra),
        Scenario::AgeTwin => crate::scen2::age_twin(),
        Scenario::Bytes(k) => crate::scen3::bytes(k, extra),
        Scenario::Program(_) => unreachable!(),
    }
}

// ------------------------------------------------------------------ scripts

pub enum SStep {
    Pub(PubSpec),
    Sub(SubSpec),
    Unsub(UnsubSpec),
    BrokerPub,
    /// the broker publishes and the application takes the message with a single poll(): the
    /// acknowledgement it owes is still queued when the next step starts
    BrokerPubTake,
    /// the application does something else for this many microseconds (only with a keep-alive)
    Sleep(u64),
    Poll,
    Reconnect,
    Disconnect,
    /// the application goes straight on to the next step: whatever the previous request left
    /// queued (in the cancelled execution: possibly the whole packet) is still there
    NoDrain,
}

fn gen_script(w: &mut World, with_disconnect: bool) -> Vec<SStep> {
    let n = 3 + w.tape.choose(14);
    let mut v = Vec::new();
    for _ in 0..n {
        let s = match w.tape.weighted(&[4, 6, 6, 2, 2, 5, 3, 1, 4]) {
            0 => {
                SStep::Pub(gen_publish(w, 0))
            }
            1 => SStep::Pub(gen_publish(w, 1)),
            2 => SStep::Pub(gen_publish(w, 2)),
            3 => SStep::Sub(gen_subscribe(w)),
            4 => SStep::Unsub(gen_unsubscribe(w)),
            5 => SStep::BrokerPub,
            6 => SStep::Poll,
            7 => SStep::Reconnect,
            _ => SStep::BrokerPubTake,
        };
        v.push(s);
        if w.cfg.keepalive_s > 0 && w.tape.chance(1, 3) {
            v.push(SStep::Sleep([300 * clock::US_PER_MS, 600 * clock::US_PER_MS, 1100 * clock::US_PER_MS, 2500 * clock::US_PER_MS][w.tape.choose(4) as usize]));
        }
    }
    // between two requests the application sometimes does not poll
    let is_request = |s: &SStep| matches!(s, SStep::Pub(_) | SStep::Sub(_) | SStep::Unsub(_));
    let mut k = 0;
    while k + 1 < v.len() {
        // (before a Reconnect too: the application drops the connection straight after the
        // request - comparable only if the request's packet is completely on the wire by then)
        if is_request(&v[k]) && (is_request(&v[k + 1]) || matches!(v[k + 1], SStep::Reconnect)) && w.tape.chance(1, 3) {
            v.insert(k + 1, SStep::NoDrain);
            k += 1;
        }
        k += 1;
    }
    if with_disconnect && w.tape.chance(1, 3) {
        v.push(SStep::Disconnect);
    }
    for s in v.iter_mut() {
        if let SStep::Pub(p) = s {
            p.payload_fails = false;
        }
    }
    v
}

/// What one execution of a script looked like from outside.
pub struct TwinObs {
    /// per connection: semantic keys of the complete client packets
    pub keys: Vec<Vec<String>>,
    pub wires: Vec<Vec<u8>>,
    pub delivered: Vec<crate::world::Delivered>,
    pub results: Vec<String>,
    /// tags that were not accepted in this execution
    pub not_accepted: Vec<u32>,
    pub cancelled_after_bytes: u64,
    pub cancels: u64,
    pub fragments: u64,
    /// identifier-bearing requests in issue order: (tag, session epoch, identifier of the first
    /// transmission, definitely never enqueued, refused locally)
    pub ids: Vec<(u32, u32, Option<u16>, bool, bool)>,
    pub epochs: u32,
    pub nconns: usize,
    /// tags refused for lack of a resource (arena space, in-flight slots, send quota)
    pub refused_for_resources: Vec<u32>,
}

fn drain_to_idle(conn: &mut Conn<'_, '_>) -> bool {
    let budget = with(|w| w.cfg.twin_poll_budget_us);
    let opts = ExecOpts { cancellable: true, idle_cancel: true, budget_us: (budget > 0).then_some(budget), timer_is_idle: true };
    for _ in 0..400 {
        let r = do_wait(conn, Wait::Poll, Some(opts));
        match r {
            Res::Cancelled => {
                if with(|w| w.last_cancel_idle) {
                    // the connection is idle: whatever was enqueued has been transmitted, so a
                    // request without any transmission was never enqueued
                    with(|w| {
                        let v: Vec<u32> = w.reqs.iter().filter(|r| r.accept == Accept::Maybe && r.tx_by_conn.is_empty() && r.first_tx.is_none()).map(|r| r.tag).collect();
                        for t in v {
                            if !w.never_enqueued.contains(&t) {
                                w.never_enqueued.push(t);
                            }
                        }
                    });
                    return true;
                }
            }
            Res::OkNone | Res::OkMsg(_) | Res::Rejected(_) => {}
            _ => return false,
        }
        if with(|w| w.cut) {
            return false;
        }
    }
    false
}

fn exec_script(session: &mut minimq::Session<'_>, script: &[SStep]) {
    let mut i = 0;
    let mut conns = 0;
    while i <= script.len() && conns < 12 {
        conns += 1;
        let mut conn = match do_connect(session, false) {
            ConnectOutcome::Up(c) => c,
            ConnectOutcome::Failed(_) => return,
        };
        if !drain_to_idle(&mut conn) {
            with(|w| close_conn(w, "twin: connection lost"));
            if with(|w| w.cut) {
                return;
            }
            continue;
        }
        let mut reconnect = false;
        while i < script.len() {
            let step = &script[i];
            i += 1;
            let mut dead = false;
            match step {
                SStep::Pub(spec) => {
                    let r = do_publish(&mut conn, spec);
                    if with(|w| std::mem::replace(&mut w.qos0_cancelled, false)) {
                        // a cancelled QoS 0 publish is not cancel-safe: the application drops the connection
                        reconnect = true;
                    }
                    dead = r.is_fatal();
                }
                SStep::Sub(spec) => dead = do_subscribe(&mut conn, spec).is_fatal(),
                SStep::Unsub(spec) => dead = do_unsubscribe(&mut conn, spec).is_fatal(),
                SStep::BrokerPub => {
                    with(|w| {
                        let cur = w.cur;
                        broker::broker_publish(w, cur);
                    });
                }
                SStep::BrokerPubTake => {
                    let before = with(|w| {
                        let cur = w.cur;
                        broker::broker_publish(w, cur);
                        w.delivered.len()
                    });
                    let opts = ExecOpts { cancellable: true, idle_cancel: true, budget_us: None, timer_is_idle: true };
                    let mut taken = false;
                    for _ in 0..60 {
                        let r = do_wait(&mut conn, Wait::Poll, Some(opts));
                        if r.is_fatal() {
                            dead = true;
                            break;
                        }
                        if with(|w| w.delivered.len()) > before {
                            taken = true;
                            break;
                        }
                        if r == Res::Cancelled && with(|w| w.last_cancel_idle) {
                            break;
                        }
                        if with(|w| w.cut) {
                            break;
                        }
                    }
                    if taken && !dead {
                        with(|w| w.probe("twin_step_with_ack_backlog"));
                        continue; // no drain: the next step meets the queued acknowledgement
                    }
                }
                SStep::Sleep(d) => with(|w| {
                    w.log(|| format!("app: does something else for {d} us"));
                    clock::advance_to(clock::now() + *d);
                    w.run_due_events();
                }),
                SStep::Poll | SStep::NoDrain => {}
                SStep::Reconnect => reconnect = true,
                SStep::Disconnect => {
                    // a cancelled disconnect() is re-issued; the sixth attempt is not cancelled any
                    // more, so that the disconnect completes in both executions
                    let mut tries = 0;
                    loop {
                        tries += 1;
                        with(|w| w.no_cancel = tries >= 6);
                        let r = do_disconnect(&mut conn, &DiscSpec { reason: None, props: None });
                        with(|w| w.no_cancel = false);
                        if r != Res::Cancelled || tries >= 6 {
                            break;
                        }
                    }
                    reconnect = true;
                    dead = true;
                }
            }
            if dead || with(|w| w.cut) {
                reconnect = true;
            }
            if reconnect {
                break;
            }
            if matches!(script.get(i), Some(SStep::NoDrain)) {
                i += 1;
                if matches!(script.get(i), Some(SStep::Reconnect)) {
                    // dropping the connection without another poll: the two executions can only
                    // be compared if every request of this connection is completely on the wire
                    // (in the uncancelled execution it always is)
                    let complete = with(|w| {
                        let cur = w.cur;
                        let c = &w.conns[cur];
                        c.parsed == c.wire.len()
                            && w.reqs.iter().all(|r| r.conn_issued != cur || r.qos == 0 || r.accept == Accept::NotAccepted || r.tx_by_conn.get(&cur).copied().unwrap_or(0) > 0)
                    });
                    if !complete {
                        with(|w| {
                            w.twin_incomparable = true;
                            w.probe("twin_not_comparable_after_undrained_reconnect");
                        });
                        break;
                    }
                    with(|w| w.probe("twin_reconnect_without_drain"));
                    continue;
                }
                with(|w| w.probe("twin_step_without_drain"));
                continue;
            }
            // timed variant: after a cancellation the application is busy elsewhere for a while
            // (never in the uncancelled run, whose schedule tape is all zero)
            with(|w| {
                if w.cfg.keepalive_s > 0 && !w.cfg.twin_same_timing && w.cfg.p_cancel > 0 && w.results.last().is_some_and(|r| r.ends_with(":Cancelled") && !r.starts_with("poll:")) && w.s_chance(500, 1000) {
                    let d = [600 * clock::US_PER_MS, 900 * clock::US_PER_MS, 1400 * clock::US_PER_MS][w.s_choose(3) as usize];
                    w.probe("twin_pause_after_cancellation");
                    w.log(|| format!("app: does something else for {d} us after the cancellation"));
                    clock::advance_to(clock::now() + d);
                    w.run_due_events();
                }
            });
            if !drain_to_idle(&mut conn) {
                break;
            }
        }
        with(|w| close_conn(w, "twin: end of segment"));
        drop(conn);
        if i >= script.len() || with(|w| w.cut) {
            break;
        }
    }
}

fn packet_key(w: &World, p: &Packet) -> String {
    match p {
        Packet::Connect { .. } => "CONNECT".into(),
        Packet::Publish { qos: 0, topic, .. } => format!("PUB0 t{}", world::tag_of_str(topic).unwrap_or(0)),
        Packet::Publish { topic, dup: true, .. } => format!("PUB dup t{}", world::tag_of_str(topic).unwrap_or(0)),
        Packet::Publish { topic, .. } => format!("PUB t{}", world::tag_of_str(topic).unwrap_or(0)),
        Packet::Subscribe { filters, .. } => format!("SUB t{}", filters.first().and_then(|f| world::tag_of_str(&f.filter)).unwrap_or(0)),
        Packet::Unsubscribe { filters, .. } => format!("UNSUB t{}", filters.first().and_then(|f| world::tag_of_str(f)).unwrap_or(0)),
        Packet::Ack { typ: 6, id, .. } => {
            let tag = w.reqs.iter().find(|r| r.id == Some(*id) && r.qos == 2).map(|r| r.tag).unwrap_or(0);
            format!("PUBREL t{tag}")
        }
        Packet::Ack { typ, id, reason, .. } => format!("{} {} {}", codec::type_name_of(*typ), id, reason.unwrap_or(0)),
        other => other.type_name().to_string(),
    }
}

fn observe(w: &World) -> TwinObs {
    let keys = w.conns.iter().map(|c| c.packets.iter().map(|p| packet_key(w, &p.pkt)).collect()).collect();
    let wires = w.conns.iter().map(|c| c.wire.clone()).collect();
    let not_accepted = w
        .reqs
        .iter()
        .filter(|r| r.accept == Accept::NotAccepted || (r.accept == Accept::Maybe && r.tx_by_conn.is_empty()))
        .map(|r| r.tag)
        .collect();
    TwinObs {
        keys,
        wires,
        delivered: w.delivered.clone(),
        results: w.results.clone(),
        not_accepted,
        ids: w
            .reqs
            .iter()
            .filter(|r| r.qos > 0 || r.kind != ReqKind::Pub)
            .map(|r| (r.tag, r.epoch, r.id, r.accept == Accept::NotAccepted || w.never_enqueued.contains(&r.tag), r.accept == Accept::NotAccepted))
            .collect(),
        epochs: w.epoch,
        nconns: w.conns.len(),
        refused_for_resources: w
            .reqs
            .iter()
            .filter(|r| r.accept == Accept::NotAccepted && matches!(r.refused_with.as_deref(), Some("NotReady") | Some("BufferTooSmall") | Some("InflightExhausted") | Some("Payload")))
            .map(|r| r.tag)
            .collect(),
        cancelled_after_bytes: w.stats.probes.get("cancel_after_partial_write").copied().unwrap_or(0),
        cancels: w.stats.faults.get("cancel_at_stall").copied().unwrap_or(0) + w.stats.faults.get("cancel_at_read_or_timer").copied().unwrap_or(0),
        fragments: w.stats.faults.get("partial_write").copied().unwrap_or(0) + w.stats.faults.get("fragmented_read").copied().unwrap_or(0),
    }
}

/// Swap in a fresh world for the twin execution; returns the first world.
pub fn second_world(program_vals: Vec<u32>, sched: Option<Tape>) -> Box<World> {
    let first = world::uninstall();
    let mut w = World::new(Tape::replay(program_vals, first.tape.entity_seed), first.cfg.clone(), first.seed);
    w.trace_on = first.trace_on;
    w.tape.pos = first.script_start_pos;
    w.script_start_pos = first.script_start_pos;
    w.sched = sched;
    w.twin_mode = true;
    w.second_execution = true;
    clock::reset();
    world::install(Box::new(w));
    first
}

/// Carry the first world's violations and statistics over into the final world.
pub fn absorb(first: Box<World>) {
    with(|w| {
        let first = *first;
        for v in first.violations {
            if !w.violations.iter().any(|x| x.sig == v.sig) {
                w.violations.push(Violation { at_event: 0, ..v });
            }
        }
        for (k, v) in first.stats.faults {
            *w.stats.faults.entry(k).or_insert(0) += v;
        }
        for (k, v) in first.stats.probes {
            *w.stats.probes.entry(k).or_insert(0) += v;
        }
        for (k, v) in first.stats.ops {
            *w.stats.ops.entry(k).or_insert(0) += v;
        }
        w.stats.polls += first.stats.polls;
        w.stats.io_calls += first.stats.io_calls;
        w.stats.events += first.stats.events;
        w.stats.conns += first.stats.conns;
        w.stats.states.extend(first.stats.states);
        w.stats.trigrams.extend(first.stats.trigrams);
        if w.trace_on {
            let mut t = first.trace;
            t.push("======== second execution (twin) ========".into());
            t.append(&mut w.trace);
            w.trace = t;
        }
    });
}

fn run_script_world(with_disconnect: bool) -> (TwinObs, Vec<u32>) {
    // first execution: benign schedule (all-zero schedule tape)
    with(|w| {
        w.sched = Some(Tape::replay(Vec::new(), 0));
        w.twin_mode = true;
        w.script_start_pos = w.tape.pos;
    });
    let script = with(|w| gen_script(w, with_disconnect));
    let cfg = with(|w| w.cfg.clone());
    with_session(&cfg, |s| exec_script(s, &script));
    let obs = with(|w| observe(w));
    let vals = with(|w| w.tape.vals.clone());
    (obs, vals)
}

/// C13: the same script with cancellations must produce the same packets and deliveries.
fn cancel_twin() {
    let (base, vals) = run_script_world(true);
    let base_cut = with(|w| w.cut);
    let seed = with(|w| w.seed);
    let first = second_world(vals, Some(crate::make_sched(seed)));
    let script = with(|w| gen_script(w, true));
    let cfg = with(|w| w.cfg.clone());
    with_session(&cfg, |s| exec_script(s, &script));
    let twin = with(|w| observe(w));
    absorb(first);
    with(|w| {
        if twin.cancels > 0 {
            w.probe("twin_cancelled");
        }
        if twin.cancelled_after_bytes > 0 {
            w.probe("twin_cancelled_after_partial_write");
        }
        if w.twin_incomparable && !w.cut {
            return;
        }
        if w.cut {
            // the cancelled run damaged its outbound stream (the base run did not): that is a
            // cancellation defect in its own right
            let c01: Option<String> = w.violations.iter().find(|v| v.prop == "C01" && (v.sig.contains("packet-inside-packet") || v.sig.contains("malformed") || v.sig.contains("bad-framing") || v.sig.contains("bytes-after-disconnect"))).map(|v| v.sig.clone());
            if let (Some(sig), false) = (c01, base_cut) {
                let tail = sig.trim_start_matches("C01/").to_string();
                w.violate_force(
                    "C13",
                    format!("stream-corrupted-after-cancellation/{tail}"),
                    "the run with cancellations corrupted the outbound byte stream; the uncancelled run did not".into(),
                );
            }
            return;
        }
        // "one that was not [enqueued] leaves no trace": a cancellation never costs a resource. A
        // request the uncancelled run accepts is not refused for lack of one in the cancelled run
        // (which, if anything, has more room: requests cancelled before being enqueued hold
        // nothing). Comparable when both runs went through the same sessions and the uncancelled
        // run refused nothing for lack of a resource (otherwise the cancelled run may have
        // accepted that request instead, and holds it).
        if base.nconns == twin.nconns && base.epochs == twin.epochs && base.refused_for_resources.is_empty() {
            if let Some(t) = twin.refused_for_resources.iter().find(|t| !base.not_accepted.contains(t)) {
                let why = w.reqs.iter().find(|r| r.tag == *t).and_then(|r| r.refused_with.clone()).unwrap_or_default();
                w.violate(
                    "C13",
                    format!("refused-for-lack-of-a-resource-only-after-cancellations/{why}"),
                    format!("request t{t} is accepted in the uncancelled run and refused with {why} in the run with cancellations"),
                );
            }
        }
        // remove from the base run what was not accepted in the twin
        // ... and from the twin what the base run refused for lack of a resource: requests that
        // were cancelled before being enqueued leave the twin with more room than the base run
        let drop_tag = |k: &String| twin.not_accepted.iter().chain(base.refused_for_resources.iter()).any(|t| k.ends_with(&format!(" t{t}")));
        // PINGREQs are comparable only if both runs share every delay *and* put the same packets
        // on the wire: a request that only one of them transmitted restarts only its keep-alive
        let keep_pings = w.cfg.twin_same_timing && !base.keys.iter().chain(twin.keys.iter()).flatten().any(|k| drop_tag(k));
        let filt = |v: &Vec<Vec<String>>| -> Vec<String> { v.iter().flatten().filter(|k| !drop_tag(k) && *k != "DISCONNECT" && (keep_pings || *k != "PINGREQ")).cloned().collect() };
        let a = filt(&base.keys);
        let b = filt(&twin.keys);
        let nd = |v: &Vec<Vec<String>>| v.iter().flatten().filter(|k| *k == "DISCONNECT").count();
        if nd(&base.keys) != nd(&twin.keys) {
            w.violate(
                "C13",
                "disconnect-count-differs-after-cancelled-disconnect".into(),
                format!("uncancelled run sent {} DISCONNECT packets, the run with a cancelled and re-issued disconnect() sent {}", nd(&base.keys), nd(&twin.keys)),
            );
        }
        if a != b {
            let i = a.iter().zip(b.iter()).position(|(x, y)| x != y).unwrap_or(a.len().min(b.len()));
            let what = |v: &Vec<String>| v.get(i).map(|s| s.split(' ').next().unwrap_or("").to_string()).unwrap_or_else(|| "end".into());
            w.violate(
                "C13",
                format!("outbound-sequence-differs/base={},twin={}", what(&a), what(&b)),
                format!("packet #{i}: uncancelled run sent {:?}, cancelled run sent {:?}; base {:?} twin {:?}", a.get(i), b.get(i), a, b),
            );
        }
        // "one that was not [enqueued] leaves no trace": a request that was never enqueued must
        // not have consumed a packet identifier either. Comparable when both executions went
        // through the same sessions and every request missing from the twin is known to have
        // never been enqueued.
        if a == b && base.nconns == twin.nconns && base.epochs == twin.epochs {
            let base_id = |t: u32| base.ids.iter().find(|x| x.0 == t).and_then(|x| x.2);
            let comparable = twin.ids.iter().all(|x| match (base_id(x.0), x.2) {
                (Some(_), Some(_)) => true,
                (Some(_), None) => x.3,
                (None, None) => true,
                (None, Some(_)) => false,
            }) && twin.ids.len() == base.ids.len()
                // a request refused locally may or may not have consumed an identifier before the
                // refusal (C07 allows it): comparable only if both runs refused the same requests
                && twin.ids.iter().all(|x| base.ids.iter().find(|b| b.0 == x.0).is_some_and(|b| b.4 == x.4));
            if comparable {
                for x in twin.ids.iter() {
                    let (Some(bid), Some(tid)) = (base_id(x.0), x.2) else { continue };
                    let shift = twin.ids.iter().filter(|u| u.0 < x.0 && u.1 == x.1 && u.2.is_none() && base_id(u.0).is_some()).count() as u16;
                    if tid != bid.wrapping_sub(shift) {
                        w.violate(
                            "C13",
                            "identifier-consumed-by-request-that-was-never-enqueued".into(),
                            format!(
                                "request t{} carries identifier {tid} in the run with cancellations; the uncancelled run used {bid} and {shift} earlier request(s) of the session were cancelled before being enqueued, so {} was expected: a cancelled, never-enqueued request left a trace in the identifier counter",
                                x.0,
                                bid.wrapping_sub(shift)
                            ),
                        );
                        break;
                    }
                }
                w.probe("twin_identifier_sequence_compared");
            }
        }
        if base.delivered != twin.delivered {
            w.violate(
                "C13",
                "deliveries-differ".into(),
                format!("uncancelled run delivered {} messages, cancelled run {}", base.delivered.len(), twin.delivered.len()),
            );
        }
    });
}

/// C15 (random): fragmentation must not change results, deliveries or outbound bytes.
fn frag_twin() {
    let (base, vals) = run_script_world(false);
    let base_cut = with(|w| w.cut);
    let seed = with(|w| w.seed);
    let first = second_world(vals, Some(crate::make_sched(seed)));
    let script = with(|w| gen_script(w, false));
    let cfg = with(|w| w.cfg.clone());
    with_session(&cfg, |s| exec_script(s, &script));
    let twin = with(|w| observe(w));
    absorb(first);
    // partial writes (and, in the timed variant, writes that take simulated time) damaged the
    // outbound stream although the whole-write run was fine
    let corrupted = with(|w| {
        if w.cut && !base_cut {
            let c01: Option<String> = w.violations.iter().find(|v| v.prop == "C01" && (v.sig.contains("packet-inside-packet") || v.sig.contains("malformed") || v.sig.contains("bad-framing"))).map(|v| v.sig.clone());
            if let Some(sig) = c01 {
                // (operation names differ between scripts: keep rule and packet kinds only)
                let tail: String = sig.trim_start_matches("C01/").split('/').map(|p| if p.starts_with("op=") { p.split(',').filter(|x| !x.starts_with("op=")).collect::<Vec<_>>().join(",") } else { p.to_string() }).collect::<Vec<_>>().join("/");
                w.violate_force(
                    "C15",
                    format!("stream-corrupted-under-partial-writes/{tail}"),
                    "the run with partial/slow writes corrupted the outbound byte stream; the run with whole writes did not".into(),
                );
                return true;
            }
        }
        false
    });
    if corrupted {
        return;
    }
    if cfg.keepalive_s == 0 || cfg.p_slow_write == 0 {
        if cfg.keepalive_s > 0 {
            with(|w| w.probe("twin_fragmented_with_keepalive_same_timing"));
        }
        compare_frag(&base, &twin);
        return;
    }
    // timed variant: keep-alive traffic depends on how long the writes took; compare what must
    // not depend on it
    with(|w| {
        w.probe("twin_fragmented_with_slow_writes");
        if w.cut || w.twin_incomparable {
            return;
        }
        // slow writes eat into the keep-alive: the slow run may lose a connection to a keep-alive
        // timeout that the whole-write run keeps (one run in ten million) - then the two are two
        // different histories
        let lost = |o: &TwinObs| o.results.iter().filter(|r| r.ends_with(":Disconnected") || r.contains(":Transport")).count();
        if base.nconns != twin.nconns || lost(&base) != lost(&twin) {
            w.probe("twin_slow_run_lost_a_connection");
            return;
        }
        if base.delivered != twin.delivered {
            w.violate("C15", "deliveries-differ/slow-writes".into(), format!("whole-write run delivered {} messages, run with slow partial writes {}", base.delivered.len(), twin.delivered.len()));
        }
        // (with request timeouts: a request given up before it was enqueued leaves no trace, one
        // the whole-write run refused for lack of room may fit now; results of requests differ by
        // construction - "Cancelled" - and are not compared)
        let timeouts = w.cfg.twin_request_budget && w.cfg.twin_poll_budget_us > 0;
        let drop_tag = |k: &String| timeouts && twin.not_accepted.iter().chain(base.refused_for_resources.iter()).any(|t| k.ends_with(&format!(" t{t}")));
        let non_ping = |o: &TwinObs| -> Vec<String> { o.keys.iter().flatten().filter(|k| *k != "PINGREQ" && !drop_tag(k)).cloned().collect() };
        if non_ping(&base) != non_ping(&twin) {
            w.violate("C15", "outbound-packets-differ/slow-writes".into(), format!("whole writes: {:?}; slow partial writes: {:?}", non_ping(&base), non_ping(&twin)));
        }
        let ops = |o: &TwinObs| -> Vec<String> { o.results.iter().filter(|r| !r.starts_with("poll:")).cloned().collect() };
        if !timeouts && ops(&base) != ops(&twin) {
            w.violate("C15", "results-differ/slow-writes".into(), format!("whole writes: {:?}; slow partial writes: {:?}", ops(&base), ops(&twin)));
        }
    });
}

fn compare_frag(base: &TwinObs, twin: &TwinObs) {
    with(|w| {
        if twin.fragments > 0 {
            w.probe("twin_fragmented");
        }
        if w.cut {
            return;
        }
        if base.results != twin.results {
            let i = base.results.iter().zip(twin.results.iter()).position(|(x, y)| x != y).unwrap_or(base.results.len().min(twin.results.len()));
            w.violate(
                "C15",
                format!("results-differ/{}", base.results.get(i).map(|s| s.split(':').next().unwrap_or("")).unwrap_or("end")),
                format!("operation result #{i}: unfragmented {:?}, fragmented {:?}", base.results.get(i), twin.results.get(i)),
            );
        }
        if base.delivered != twin.delivered {
            w.violate("C15", "deliveries-differ".into(), format!("unfragmented run delivered {} messages, fragmented run {}", base.delivered.len(), twin.delivered.len()));
        }
        if base.wires != twin.wires {
            let c = base.wires.iter().zip(twin.wires.iter()).position(|(x, y)| x != y).unwrap_or(0);
            w.violate(
                "C15",
                "outbound-bytes-differ".into(),
                format!("connection {c}: unfragmented {} fragmented {}", crate::util::hex(base.wires.get(c).map(|v| &v[..]).unwrap_or(&[])), crate::util::hex(twin.wires.get(c).map(|v| &v[..]).unwrap_or(&[]))),
            );
        }
    });
}

/// Inbound streams for the exhaustive chunking enumeration (each at most 8 bytes after the
/// 5-byte CONNACK, i.e. 2^12 chunkings of 13 bytes).
const STREAMS: [&[u8]; 8] = [
    &[0x30, 0x06, 0x00, 0x01, b'a', 0x00, b'x', b'y'],             // PUBLISH QoS 0
    &[0x32, 0x06, 0x00, 0x01, b'a', 0x00, 0x07, 0x00],             // PUBLISH QoS 1
    &[0x34, 0x06, 0x00, 0x01, b'a', 0x00, 0x09, 0x00],             // PUBLISH QoS 2
    &[0xD0, 0x00, 0x30, 0x04, 0x00, 0x01, b'b', 0x00],             // PINGRESP + PUBLISH
    &[0x62, 0x02, 0x00, 0x05, 0x62, 0x03, 0x00, 0x06],             // PUBREL (unknown id) + incomplete PUBREL
    &[0x40, 0x02, 0x00, 0x09, 0xE0, 0x00],                         // stale PUBACK + DISCONNECT
    &[0x30, 0x05, 0x00, 0x01, b'c', 0x00, b'z', 0xD0],             // PUBLISH + half of a PINGRESP
    &[0x90, 0x04, 0x00, 0x09, 0x00, 0x00, 0xD0, 0x00],             // stale SUBACK + PINGRESP
];

/// Streams whose first packet has a multi-byte remaining length.
fn long_stream(i: u64) -> Vec<u8> {
    let publish = |qos: u8, id: u16, rl: usize| -> Vec<u8> {
        let topic = "in/l";
        let fixed = 2 + topic.len() + if qos > 0 { 2 } else { 0 } + 1;
        let p = Packet::Publish { dup: false, qos, retain: false, topic: topic.into(), id: (qos > 0).then_some(id), props: vec![], payload: (0..rl - fixed).map(|i| (i % 253) as u8).collect() };
        codec::encode(&p)
    };
    let mut v = match i % 6 {
        0 => publish(0, 0, 128),
        1 => publish(1, 7, 200),
        2 => publish(0, 0, 16383),
        3 => publish(0, 0, 16384),
        4 => publish(2, 9, 300),
        _ => {
            let mut a = publish(0, 0, 127);
            a.extend(publish(0, 0, 129));
            a
        }
    };
    // something short behind it: swallowed if the length of the first packet is misjudged
    v.extend([0x30, 0x05, 0x00, 0x01, b'c', 0x00, b'z', 0xD0, 0x00]);
    v
}

/// C15: the inbound stream arrives in two pieces 300 ms apart, the application's poll times out
/// after 100 ms - with only the first piece read, possibly a single header byte - and the
/// application drops the connection and connects again. What was half read on the first
/// connection must not reach into the second: `connect()` has the same result as in the run in
/// which the stream arrived in one piece, and no valid packet is rejected.
fn frag_giveup(extra: u64) {
    let idx = extra / 8;
    let stream: Vec<u8> = if idx < 8 { STREAMS[idx as usize].to_vec() } else { long_stream(idx - 8) };
    let cut = (extra % 8) as usize;
    let once = |pieces: bool| -> TwinObs {
        with(|w| {
            w.twin_mode = true;
            w.sched = Some(Tape::replay(Vec::new(), 0));
            w.script_start_pos = w.tape.pos;
            if pieces && cut + 1 < stream.len() {
                w.raw_pieces_after_connack = Some(vec![stream[..cut + 1].to_vec(), stream[cut + 1..].to_vec()]);
            } else {
                w.raw_after_connack = Some(stream.clone());
            }
        });
        let cfg = with(|w| w.cfg.clone());
        with_session(&cfg, |s| {
            if let ConnectOutcome::Up(mut conn) = do_connect(s, false) {
                let opts = ExecOpts { cancellable: true, idle_cancel: true, budget_us: Some(100 * clock::US_PER_MS), timer_is_idle: false };
                for _ in 0..40 {
                    let r = do_wait(&mut conn, Wait::Poll, Some(opts));
                    if r.is_fatal() || r == Res::Cancelled {
                        break;
                    }
                }
                with(|w| close_conn(w, "frag: the application gives up and drops the connection"));
                drop(conn);
            }
            with(|w| w.raw_after_connack = Some(stream.clone()));
            if let ConnectOutcome::Up(mut conn) = do_connect(s, false) {
                let opts = ExecOpts { cancellable: true, idle_cancel: true, budget_us: None, timer_is_idle: true };
                for _ in 0..40 {
                    let r = do_wait(&mut conn, Wait::Poll, Some(opts));
                    if r.is_fatal() || r == Res::Cancelled {
                        break;
                    }
                }
                with(|w| close_conn(w, "frag: end"));
            }
        });
        with(|w| observe(w))
    };
    let base = once(false);
    let vals = with(|w| w.tape.vals.clone());
    let first = second_world(vals, None);
    let twin = once(true);
    absorb(first);
    with(|w| {
        w.probe("twin_fragmented");
        w.probe("gave_up_inside_a_packet_then_reconnected");
        let connects = |o: &TwinObs| -> Vec<String> { o.results.iter().filter(|r| r.starts_with("connect:")).cloned().collect() };
        let fatal = |o: &TwinObs| o.results.iter().filter(|r| r.ends_with("InvalidPacket") || r.contains("Transport")).count();
        if connects(&base) != connects(&twin) || fatal(&base) != fatal(&twin) {
            w.violate(
                "C15",
                "results-differ/reconnect-after-giving-up-inside-a-packet".into(),
                format!("stream in one piece: {:?}; first piece of {} byte(s), application timeout, reconnect: {:?}", base.results, cut + 1, twin.results),
            );
        }
    });
}

/// C15: long packets in pieces with time gaps, the read interrupted between the pieces.
fn frag_long(extra: u64) {
    let stream = long_stream(extra >> 9);
    let app_timeout = (extra >> 8) & 1 == 1;
    let mask = extra & 0xFF;
    let base = frag_once_with(&stream, None, true, None);
    let vals = with(|w| w.tape.vals.clone());
    let first = second_world(vals, None);
    let twin = frag_once_with(&stream, Some(mask), true, app_timeout.then_some(100 * clock::US_PER_MS));
    absorb(first);
    with(|w| {
        w.probe("twin_fragmented");
        w.probe("long_packet_in_pieces_with_interrupted_read");
        if base.delivered != twin.delivered {
            w.violate(
                "C15",
                format!("deliveries-differ/long-packet-in-pieces/{}", if app_timeout { "application-timeout" } else { "keepalive-deadline" }),
                format!("stream delivered at once: {} messages; in pieces 300 ms apart (mask {:#x}): {} messages", base.delivered.len(), mask, twin.delivered.len()),
            );
        }
        let non_ping = |o: &TwinObs| -> Vec<String> { o.keys.iter().flatten().filter(|k| *k != "PINGREQ").cloned().collect() };
        if non_ping(&base) != non_ping(&twin) {
            w.violate(
                "C15",
                "outbound-packets-differ/long-packet-in-pieces".into(),
                format!("at once: {:?}; in pieces: {:?}", non_ping(&base), non_ping(&twin)),
            );
        }
        let fatal = |o: &TwinObs| o.results.iter().filter(|r| r.ends_with("InvalidPacket") || r.contains("Transport")).count();
        if fatal(&base) != fatal(&twin) {
            w.violate(
                "C15",
                "results-differ/long-packet-in-pieces".into(),
                format!("at once: {:?}; in pieces: {:?}", base.results, twin.results),
            );
        }
    });
}

/// C15: the transport dies at the same point of the same program in both executions - right
/// after the first write call of one packet - but that call accepted the whole packet in one
/// execution and only its first k bytes in the other. The resumed connection must look the same.
fn frag_loss(extra: u64) {
    let kind = extra % 4;
    let k = 1 + ((extra / 4) % 48) as usize;
    let base = loss_once(kind, usize::MAX);
    let base_cut = with(|w| w.cut);
    let vals = with(|w| w.tape.vals.clone());
    let first = second_world(vals, None);
    let twin = loss_once(kind, k);
    absorb(first);
    with(|w| {
        w.probe("twin_fragmented");
        w.probe("loss_after_partial_acceptance");
        if w.cut {
            if !base_cut {
                if let Some(sig) = w.violations.iter().find(|v| v.prop == "C01").map(|v| v.sig.clone()) {
                    let tail = sig.trim_start_matches("C01/").split("/op=").next().unwrap_or("").to_string();
                    w.violate_force(
                        "C15",
                        format!("stream-corrupted-after-loss-inside-a-partially-accepted-packet/{tail}"),
                        format!("the transport died after accepting {k} bytes of a packet; the resumed connection's byte stream is corrupt, it is not when the whole packet had been accepted"),
                    );
                }
            }
            return;
        }
        // (what the broker saw of the cut packet differs between the two executions, and so does
        // everything it answers later: compared are the results up to the reconnect and the
        // first two packets of the resumed connection - CONNECT and the retransmission)
        let upto = |o: &TwinObs| -> Vec<String> {
            let mut v = Vec::new();
            let mut connects = 0;
            for r in &o.results {
                if r.starts_with("connect:") {
                    connects += 1;
                }
                if r.starts_with("poll:") {
                    continue;
                }
                v.push(r.clone());
                if connects == 2 {
                    break;
                }
            }
            v
        };
        if upto(&base) != upto(&twin) {
            w.violate("C15", "results-differ/loss-after-partial-acceptance".into(), format!("whole packet accepted: {:?}; {k} bytes accepted: {:?}", upto(&base), upto(&twin)));
        }
        let head = |w: &World, o: &TwinObs| -> Vec<u8> {
            // raw bytes of the first two complete packets of the last connection
            let _ = o;
            let c = w.conns.last().unwrap();
            let end = c.packets.get(1).map(|p| p.start + p.len).unwrap_or(0);
            c.wire[..end.min(c.wire.len())].to_vec()
        };
        let twin_head = head(w, &twin);
        let base_head: Vec<u8> = {
            let wire = base.wires.last().cloned().unwrap_or_default();
            wire[..twin_head.len().min(wire.len())].to_vec()
        };
        if twin_head.is_empty() || base_head != twin_head {
            w.violate(
                "C15",
                "outbound-bytes-differ/resumed-connection-after-loss-inside-a-packet".into(),
                format!("resumed connection starts with (whole packet accepted before the loss) {}; ({k} bytes accepted) {}", crate::util::hex(&base_head), crate::util::hex(&twin_head)),
            );
        }
    });
}

fn loss_once(kind: u64, k: usize) -> TwinObs {
    with(|w| {
        w.twin_mode = true;
        w.sched = Some(Tape::replay(Vec::new(), 0));
        w.script_start_pos = w.tape.pos;
    });
    let cfg = with(|w| w.cfg.clone());
    with_session(&cfg, |s| {
        let small_pub = |w: &mut World, q: u8| {
            let mut p = gen_publish(w, q);
            p.props.clear();
            p.correlate = None;
            p.payload_fails = false;
            p.payload = (0..40u8).collect();
            p
        };
        if let ConnectOutcome::Up(mut conn) = do_connect(s, false) {
            let _ = drain_to_idle(&mut conn);
            match kind {
                0 | 1 => {
                    let spec = with(|w| small_pub(w, if kind == 0 { 1 } else { 2 }));
                    with(|w| w.die_after_accepting = Some(k));
                    let _ = do_publish(&mut conn, &spec);
                }
                2 => {
                    let mut spec = with(gen_subscribe);
                    spec.props.clear();
                    with(|w| w.die_after_accepting = Some(k));
                    let _ = do_subscribe(&mut conn, &spec);
                }
                _ => {
                    // the PUBREL of a QoS 2 exchange is the packet that is cut
                    let spec = with(|w| small_pub(w, 2));
                    let _ = do_publish(&mut conn, &spec);
                    with(|w| w.die_after_accepting = Some(k));
                    let _ = drain_to_idle(&mut conn);
                }
            }
            with(|w| {
                w.die_after_accepting = None;
                close_conn(w, "frag: transport lost")
            });
            drop(conn);
        }
        if let ConnectOutcome::Up(mut conn) = do_connect(s, false) {
            let _ = drain_to_idle(&mut conn);
            with(|w| close_conn(w, "frag: end"));
        }
    });
    with(|w| observe(w))
}

fn frag_once(stream: &[u8], mask: Option<u64>, gaps: bool) -> TwinObs {
    frag_once_with(stream, mask, gaps, None)
}

fn frag_once_with(stream: &[u8], mask: Option<u64>, gaps: bool, budget_us: Option<u64>) -> TwinObs {
    with(|w| {
        w.twin_mode = true;
        w.sched = Some(Tape::replay(Vec::new(), 0));
        w.script_start_pos = w.tape.pos;
        if gaps {
            // the stream after the CONNACK is cut at the mask's split points (bit i = after
            // stream byte i) and the pieces arrive 300 ms apart
            let mut pieces: Vec<Vec<u8>> = vec![Vec::new()];
            for (i, b) in stream.iter().enumerate() {
                pieces.last_mut().unwrap().push(*b);
                if i < 64 && mask.is_some_and(|m| (m >> i) & 1 == 1) && i + 1 < stream.len() {
                    pieces.push(Vec::new());
                }
            }
            w.raw_pieces_after_connack = Some(pieces);
        } else {
            w.chunk_mask = mask;
            w.raw_after_connack = Some(stream.to_vec());
        }
    });
    let cfg = with(|w| w.cfg.clone());
    with_session(&cfg, |s| {
        if let ConnectOutcome::Up(mut conn) = do_connect(s, false) {
            let opts = ExecOpts { cancellable: true, idle_cancel: true, budget_us, timer_is_idle: !gaps };
            for _ in 0..(if budget_us.is_some() { 120 } else { 40 }) {
                let r = do_wait(&mut conn, Wait::Poll, Some(opts));
                if r.is_fatal() || (r == Res::Cancelled && (budget_us.is_none() || with(|w| w.last_cancel_idle))) {
                    break;
                }
            }
            with(|w| close_conn(w, "frag: end"));
        }
    });
    with(|w| observe(w))
}

/// C15 (enumerated): every chunking of a short inbound stream.
fn frag_enum(extra: u64, gaps: bool) {
    let stream = STREAMS[(extra >> 12) as usize % STREAMS.len()];
    let mask = extra & 0xFFF;
    let base = frag_once(stream, None, gaps);
    let vals = with(|w| w.tape.vals.clone());
    let first = second_world(vals, None);
    let twin = frag_once(stream, Some(if gaps { mask & 0xFF } else { mask }), gaps);
    absorb(first);
    with(|w| {
        w.probe("twin_fragmented");
        w.probe("chunking_enumerated");
    });
    if !gaps {
        compare_frag(&base, &twin);
        return;
    }
    // with time gaps the keep-alive traffic interleaves differently: compare what must not
    // depend on it
    with(|w| {
        w.probe("fragments_with_time_gaps");
        let msgs = |o: &TwinObs| o.delivered.clone();
        if msgs(&base) != msgs(&twin) {
            w.violate(
                "C15",
                "deliveries-differ/fragments-with-time-gaps".into(),
                format!("stream delivered at once: {} messages {:?}; delivered in pieces 300 ms apart (mask {:#x}): {} messages {:?}", base.delivered.len(), base.delivered, mask & 0xFF, twin.delivered.len(), twin.delivered),
            );
        }
        let non_ping = |o: &TwinObs| -> Vec<String> { o.keys.iter().flatten().filter(|k| *k != "PINGREQ").cloned().collect() };
        if non_ping(&base) != non_ping(&twin) {
            w.violate(
                "C15",
                "outbound-packets-differ/fragments-with-time-gaps".into(),
                format!("at once: {:?}; in pieces: {:?}", non_ping(&base), non_ping(&twin)),
            );
        }
    });
}
