//! Broker model (reference MQTT 5 server endpoint + fault injector) and the ledger oracles that
//! are evaluated on every packet the client writes and on every broker packet the client's reads
//! have fully consumed.

use crate::clock::{self, US_PER_MS, US_PER_S};
use crate::codec::{self, PVal, Packet, Prop};
use crate::world::*;


pub fn delay_us(w: &mut World, tag: u64, label: u64) -> u64 {
    if w.benign {
        return 0;
    }
    if let Some(d) = w.force_delay.take() {
        return d;
    }
    const LAWS: [&[u64]; 4] = [
        &[0],
        &[0, 0, 0, 100, US_PER_MS, 10 * US_PER_MS],
        &[0, 0, US_PER_MS, 500 * US_PER_MS, 3 * US_PER_S, 8 * US_PER_S],
        &[0, US_PER_MS, 3 * US_PER_S, 8 * US_PER_S, 40 * US_PER_S, 200 * US_PER_S],
    ];
    let law = LAWS[(w.cfg.delay_law as usize).min(3)];
    let i = pick(w, tag, label, law.len() as u32) as usize;
    law[i]
}

/// Draw either from the global tape or (twin profiles) from the entity stream.
pub fn pick(w: &mut World, tag: u64, label: u64, n: u32) -> u32 {
    if w.cfg.profile == Profile::Twin {
        w.tape.entity(tag, label, n)
    } else {
        w.tape.choose(n)
    }
}

pub fn chance(w: &mut World, tag: u64, label: u64, permille: u32) -> bool {
    if w.benign || permille == 0 {
        return false;
    }
    if w.cfg.profile == Profile::Twin {
        w.tape.entity(tag, label, 1000) < permille
    } else {
        w.tape.chance(permille, 1000)
    }
}

/// The forms in which a broker may send PUBREL: short (success implied), with a reason code
/// (0x00 or 0x92, the two MQTT 5 allows), with an empty property block. None of them changes
/// what the client owes: a PUBCOMP.
fn pubrel_packet(w: &mut World, id: u16, key: u64) -> Packet {
    if !chance(w, key, 0x7E1, 250) {
        return Packet::Ack { typ: 6, id, reason: None, props: None };
    }
    w.fault("pubrel_long_form");
    match pick(w, key, 0x7E2, 3) {
        0 => Packet::Ack { typ: 6, id, reason: Some(0), props: None },
        1 => Packet::Ack { typ: 6, id, reason: Some(0x92), props: None },
        _ => Packet::Ack { typ: 6, id, reason: Some(0), props: Some(vec![]) },
    }
}

fn send(w: &mut World, conn: usize, delay: u64, pkt: &Packet, meta: RxMeta) {
    let bytes = codec::encode(pkt);
    send_raw(w, conn, delay, bytes, meta);
}

pub fn send_raw(w: &mut World, conn: usize, delay: u64, bytes: Vec<u8>, meta: RxMeta) {
    let len = bytes.len();
    if len > w.cfg.rx_len && !matches!(meta, RxMeta::Garbage | RxMeta::Partial | RxMeta::Raw) {
        // a conformant broker never exceeds the Maximum Packet Size the client advertised
        w.probe("broker_packet_would_exceed_client_maximum");
        return;
    }
    w.schedule(
        delay,
        Event::Deliver {
            conn,
            bytes,
            metas: vec![(len, meta)],
        },
    );
}

fn kind_of_req(r: &Req) -> &'static str {
    match (r.kind, r.qos) {
        (ReqKind::Pub, 0) => "pub0",
        (ReqKind::Pub, 1) => "pub1",
        (ReqKind::Pub, _) => "pub2",
        (ReqKind::Sub, _) => "sub",
        (ReqKind::Unsub, _) => "unsub",
    }
}

fn props_equiv(a: &[Prop], b: &[Prop]) -> bool {
    // Order of properties is not significant except among user properties.
    let split = |v: &[Prop]| {
        let mut other: Vec<Prop> = v.iter().filter(|p| p.id != 0x26).cloned().collect();
        other.sort();
        let user: Vec<Prop> = v.iter().filter(|p| p.id == 0x26).cloned().collect();
        (other, user)
    };
    split(a) == split(b)
}

/// C09: the decoded packet equals the request (identifier and DUP are ignored here).
fn same_request(got: &Packet, want: &Packet) -> Result<(), String> {
    match (got, want) {
        (
            Packet::Publish {
                qos,
                retain,
                topic,
                props,
                payload,
                ..
            },
            Packet::Publish {
                qos: q2,
                retain: r2,
                topic: t2,
                props: p2,
                payload: pl2,
                ..
            },
        ) => {
            if qos != q2 {
                return Err(format!("qos {qos} != {q2}"));
            }
            if retain != r2 {
                return Err("retain flag differs".into());
            }
            if topic != t2 {
                return Err("topic differs".into());
            }
            if payload != pl2 {
                return Err(format!("payload differs (len {} vs {})", payload.len(), pl2.len()));
            }
            if !props_equiv(props, p2) {
                return Err(format!("properties differ: {:?} vs {:?}", props, p2));
            }
            Ok(())
        }
        (
            Packet::Subscribe { props, filters, .. },
            Packet::Subscribe {
                props: p2,
                filters: f2,
                ..
            },
        ) => {
            if filters != f2 {
                return Err(format!("filters differ: {:?} vs {:?}", filters, f2));
            }
            if !props_equiv(props, p2) {
                return Err("properties differ".into());
            }
            Ok(())
        }
        (
            Packet::Unsubscribe { props, filters, .. },
            Packet::Unsubscribe {
                props: p2,
                filters: f2,
                ..
            },
        ) => {
            if filters != f2 {
                return Err("filters differ".into());
            }
            if !props_equiv(props, p2) {
                return Err("properties differ".into());
            }
            Ok(())
        }
        _ => Err(format!("packet type {} != {}", got.type_name(), want.type_name())),
    }
}

fn unresolved(r: &Req) -> bool {
    !matches!(r.phase, Phase::Done(_))
}

// ------------------------------------------------------------------ client -> broker

pub fn on_client_packet(w: &mut World, conn: usize, idx: usize, raw: &[u8]) {
    let pkt = w.conns[conn].packets[idx].pkt.clone();
    // C14 outbound limit (everything after CONNACK)
    if let Some(max) = w.conns[conn].max_packet_size {
        if w.conns[conn].connack_consumed && raw.len() == max as usize {
            w.probe("outbound_exactly_at_max");
        }
        if w.conns[conn].connack_consumed && raw.len() > max as usize {
            w.violate(
                "C14",
                format!("outbound-exceeds-max/type={}", pkt.type_name()),
                format!("packet of {} bytes sent, broker Maximum Packet Size {}", raw.len(), max),
            );
        }
    }
    match pkt {
        Packet::Connect { .. } => on_connect(w, conn, &pkt),
        Packet::Publish { qos: 0, .. } => on_retained_class(w, conn, idx, raw, &pkt),
        Packet::Publish { .. } | Packet::Subscribe { .. } | Packet::Unsubscribe { .. } => {
            on_retained_class(w, conn, idx, raw, &pkt)
        }
        Packet::Ack { typ: 6, id, reason, .. } => on_pubrel(w, conn, id, reason),
        Packet::Ack { typ, id, reason, .. } => on_client_ack(w, conn, typ, id, reason),
        Packet::PingReq => {
            let k = keepalive_eff(w, conn);
            if k == Some(0) {
                let stale = w.conns[conn].t_connack_consumed == Some(clock::now());
                w.violate(
                    "C10",
                    format!("ping-with-keepalive-0/{}", if stale { "replayed-right-after-connack" } else { "while-connected" }),
                    "PINGREQ sent although the effective keep-alive is 0".into(),
                );
            }
            w.probe("pingreq");
            let never = chance(w, 0x9100 + idx as u64, 1, w.cfg.p_no_pingresp);
            if never {
                w.fault("pingresp_withheld");
            } else {
                let mut d = delay_us(w, 0x9100 + idx as u64, 2);
                if w.cfg.profile == Profile::Timing && !w.benign && w.tape.chance(1, 6) {
                    // exactly around the documented 5 s round-trip bound
                    d = 5 * US_PER_S - 1 + w.tape.choose(3) as u64;
                    w.probe("pingresp_around_timeout_bound");
                }
                send(w, conn, d, &Packet::PingResp, RxMeta::PingResp);
            }
        }
        Packet::Disconnect { .. } => {
            w.conns[conn].saw_disconnect = true;
            if let Some(want) = w.disconnect_expected.take() {
                if codec::normalize(&pkt) != codec::normalize(&want) {
                    w.violate(
                        "C09",
                        "disconnect-content".into(),
                        format!("DISCONNECT decoded as {:?}, requested {:?}", pkt, want),
                    );
                }
            } else {
                w.violate(
                    "C01",
                    "unrequested-disconnect".into(),
                    "DISCONNECT on the wire without a disconnect request".into(),
                );
            }
            // a graceful disconnect ends the broker session only if expiry is 0
            if w.cfg.session_expiry == 0 {
                w.broker_has_session = false;
            }
            w.schedule(0, Event::Close { conn });
        }
        other => {
            w.violate(
                "C01",
                format!("unexpected-type/{}", other.type_name()),
                "client sent a server-only packet".into(),
            );
        }
    }
}

pub fn keepalive_eff(w: &World, conn: usize) -> Option<u16> {
    let c = &w.conns[conn];
    if !c.established {
        return None;
    }
    Some(c.server_keepalive.unwrap_or(c.connect_keepalive))
}

fn on_connect(w: &mut World, conn: usize, pkt: &Packet) {
    let Packet::Connect {
        clean_start,
        keepalive,
        props,
        client_id,
        will,
        user,
        password,
    } = pkt
    else {
        unreachable!()
    };
    w.conns[conn].connect_keepalive = *keepalive;
    if !w.session_ambiguous {
        let want_clean = !w.ever_success_connack;
        if *clean_start != want_clean && !w.clean_start_ambiguous {
            w.violate(
                "C05",
                format!("clean-start/got={},want={}", clean_start, want_clean),
                format!(
                    "CONNECT #{} clean_start={} but a successful CONNACK was{} received before",
                    conn,
                    clean_start,
                    if w.ever_success_connack { "" } else { " never" }
                ),
            );
        }
        if client_id.starts_with("rejected-") {
            w.violate(
                "C08",
                "malformed-partially-acted-upon/assigned-client-id-of-rejected-connack".into(),
                format!("CONNECT carries client id {:?}, which was assigned by a CONNACK that connect() rejected as invalid", client_id),
            );
        }
        if *client_id != w.expected_client_id {
            w.violate(
                "C05",
                "client-id".into(),
                format!("CONNECT client id {:?}, expected {:?}", client_id, w.expected_client_id),
            );
            // C12: the reconnect after whatever happened before is made in the session's name
            if w.benign {
                w.violate(
                    "C12",
                    "reconnect-under-another-client-id".into(),
                    format!("the final reconnect's CONNECT carries client id {:?}, the session's is {:?}: the broker takes the client for another one", client_id, w.expected_client_id),
                );
            }
        }
    }
    // C09: CONNECT content
    if *keepalive != w.cfg.keepalive_s {
        let after = if w.server_keepalive_seen { "after-server-keepalive" } else { "plain" };
        w.violate(
            "C09",
            format!("connect-keepalive/{after}"),
            format!("CONNECT keep-alive {} but configured {}", keepalive, w.cfg.keepalive_s),
        );
    }
    let mut mps = None;
    let mut sei = 0u32;
    let mut rm = None;
    for p in props {
        match (&p.val, p.id) {
            (PVal::U32(v), 0x27) => mps = Some(*v),
            (PVal::U32(v), 0x11) => sei = *v,
            (PVal::U16(v), 0x21) => rm = Some(*v),
            _ => w.violate(
                "C09",
                format!("connect-extra-property/{:#x}", p.id),
                format!("unexpected CONNECT property {:?}", p),
            ),
        }
    }
    if mps != Some(w.cfg.rx_len as u32) {
        w.violate(
            "C14",
            "connect-max-packet-size".into(),
            format!("CONNECT Maximum Packet Size {:?}, receive buffer is {}", mps, w.cfg.rx_len),
        );
    }
    if sei != w.cfg.session_expiry {
        w.violate(
            "C09",
            "connect-session-expiry".into(),
            format!("CONNECT session expiry {} configured {}", sei, w.cfg.session_expiry),
        );
    }
    // The value is the client's own business (absent = 65535), but it must be legal and the
    // same on every connection of a session.
    let rm_eff = rm.unwrap_or(65535);
    if rm == Some(0) {
        w.violate("C09", "connect-receive-maximum-zero".into(), "CONNECT Receive Maximum 0 is illegal".into());
    }
    match w.client_receive_max {
        None => w.client_receive_max = Some(rm_eff),
        Some(prev) if prev != rm_eff => w.violate(
            "C09",
            "connect-receive-maximum-changed".into(),
            format!("CONNECT Receive Maximum {} differs from the {} advertised on an earlier connection", rm_eff, prev),
        ),
        _ => {}
    }
    let want_will = w.cfg.will.as_ref().map(|c| codec::WillMsg {
        qos: c.qos,
        retain: c.retain,
        props: c.props.clone(),
        topic: c.topic.clone(),
        payload: c.payload.clone(),
    });
    let will_ok = match (will, &want_will) {
        (None, None) => true,
        (Some(a), Some(b)) => {
            a.qos == b.qos && a.retain == b.retain && a.topic == b.topic && a.payload == b.payload && props_equiv(&a.props, &b.props)
        }
        _ => false,
    };
    if !will_ok {
        w.violate(
            "C09",
            "connect-will".into(),
            format!("CONNECT will {:?}, configured {:?}", will, want_will),
        );
    }
    let (want_user, want_pw) = match &w.cfg.auth {
        Some((u, p)) => (Some(u.clone()), Some(p.clone())),
        None => (None, None),
    };
    if *user != want_user || *password != want_pw {
        w.violate(
            "C09",
            "connect-auth".into(),
            "CONNECT user name/password differ from configuration".into(),
        );
    }
    if rm == Some(0) || mps == Some(0) {
        // a conformant broker treats these values as a protocol error [MQTT-3.1.2-11.3]
        w.conns[conn].connack_sent = true;
        let p = Packet::ConnAck { session_present: false, reason: 0x82, props: vec![] };
        send(w, conn, 0, &p, RxMeta::ConnAck { session_present: false, reason: 0x82, semantic_ok: true });
        w.schedule(0, Event::Close { conn });
        w.probe("broker_refused_connect_as_protocol_error");
        return;
    }
    connack_policy(w, conn, *clean_start, client_id.is_empty());
}

fn connack_policy(w: &mut World, conn: usize, clean_start: bool, need_id: bool) {
    let t = 0xC000 + conn as u64;
    if let Some(raw) = w.raw_instead_of_connack.take() {
        // byte-string scenarios: these bytes are the whole answer, then the stream ends
        w.conns[conn].connack_sent = true;
        let len = raw.len();
        if len > 0 {
            w.schedule(0, Event::Deliver { conn, bytes: raw, metas: vec![(len, RxMeta::Raw)] });
        }
        w.schedule(0, Event::Close { conn });
        return;
    }
    // fault: no answer at all / wrong packet / reject / truncated / garbage
    if chance(w, t, 1, w.cfg.p_connack_fault) {
        let which = pick(w, t, 2, 7);
        w.conns[conn].connack_sent = true;
        match which {
            0 => {
                w.fault("connack_never");
            }
            1 => {
                w.fault("connack_rejected");
                let reason = [0x80u8, 0x85, 0x86, 0x87, 0x88, 0x89, 0x8C, 0x97, 0x9F][pick(w, t, 3, 9) as usize];
                let p = Packet::ConnAck {
                    session_present: false,
                    reason,
                    props: vec![],
                };
                send(w, conn, 0, &p, RxMeta::ConnAck { session_present: false, reason, semantic_ok: true });
                w.schedule(0, Event::Close { conn });
            }
            2 => {
                w.fault("connack_wrong_type");
                let p = Packet::Ack { typ: 4, id: 1, reason: None, props: None };
                send(w, conn, 0, &p, RxMeta::Garbage);
            }
            3 => {
                w.fault("connack_truncated_eof");
                send_raw(w, conn, 0, vec![0x20, 0x03, 0x00], RxMeta::Partial);
                w.schedule(0, Event::Close { conn });
            }
            4 => {
                w.fault("connack_broker_disconnect");
                let p = Packet::Disconnect { reason: Some(0x89), props: None };
                send(w, conn, 0, &p, RxMeta::Disconnect);
                w.schedule(0, Event::Close { conn });
            }
            5 => {
                w.fault("connack_garbage");
                let n = 1 + pick(w, t, 4, 6) as usize;
                let mut g = Vec::new();
                for i in 0..n {
                    g.push(pick(w, t, 10 + i as u64, 256) as u8);
                }
                // make sure it is not accidentally a valid CONNACK prefix
                g[0] = 0x00 | (g[0] & 0x0F);
                send_raw(w, conn, 0, g, RxMeta::Partial);
                w.schedule(0, Event::Close { conn });
            }
            _ => {
                // structurally valid, success code, semantically invalid property
                w.fault("connack_semantic_invalid");
                // (the broker may have lost the session here as anywhere else)
                let lost = chance(w, t, 7, w.cfg.p_session_loss.max(250));
                let sp = !clean_start && w.broker_has_session && w.cfg.session_expiry != 0 && !lost;
                let bad = match pick(w, t, 5, 2) {
                    0 => Prop { id: 0x21, val: PVal::U16(0) },
                    _ => Prop { id: 0x24, val: PVal::Byte(3) },
                };
                // half of them carry a perfectly valid Assigned Client Identifier *before* the
                // offending property: a rejected CONNACK must not be acted upon in part
                let mut props = Vec::new();
                if pick(w, t, 6, 2) == 1 {
                    props.push(Prop { id: 0x12, val: PVal::Str(format!("rejected-{conn}")) });
                }
                props.push(bad);
                let p = Packet::ConnAck { session_present: sp, reason: 0, props };
                if codec::encode(&p).len() <= w.cfg.rx_len {
                    // the broker itself considers the CONNECT accepted: it has a session now, a
                    // fresh one if it said so
                    if !sp {
                        for m in w.bmsgs.iter_mut() {
                            m.state = 2;
                        }
                    }
                    w.broker_has_session = true;
                    send(w, conn, 0, &p, RxMeta::ConnAck { session_present: sp, reason: 0, semantic_ok: false });
                }
                w.schedule(0, Event::Close { conn });
            }
        }
        return;
    }

    // (a broker that overrode the Session Expiry Interval with 0 on the previous connection has
    // dropped the session when that connection ended)
    let session_expires = w.cfg.session_expiry == 0 || std::mem::replace(&mut w.broker_session_expiry_zero, false);
    let mut sp = !clean_start && w.broker_has_session && !session_expires;
    if sp && chance(w, t, 6, w.cfg.p_session_loss) {
        sp = false;
        w.fault("broker_session_loss");
    }
    if !sp {
        // broker starts a fresh session: forgets everything in flight towards the client
        for m in w.bmsgs.iter_mut() {
            m.state = 2;
        }
    }
    // C05 quantifies over *arbitrary* session-present answers: now and then the broker answers
    // "session present" to a CONNECT that asked for a clean start (out of specification, but a
    // client that reports what the broker said must report Reconnected). The client asks for a
    // clean start only before its first successful CONNACK, so nothing is in flight either way.
    if !sp && clean_start && chance(w, t, 61, 12) {
        sp = true;
        w.fault("broker_session_present_on_clean_start");
    }
    w.broker_has_session = true;

    let mut props: Vec<Prop> = Vec::new();
    let c = &mut w.conns[conn];
    c.receive_max = 65535;
    c.max_packet_size = None;
    c.max_qos = 2;
    c.server_keepalive = None;
    c.assigned_id = None;
    let small = chance(w, t, 7, w.cfg.p_small_limits);
    let benign = w.benign;
    let mut rm = None;
    let mut mps = None;
    let mut mq = None;
    let mut ska = None;
    if !benign && (small || w.cfg.profile == Profile::Quota) {
        if pick(w, t, 8, 3) != 0 || w.cfg.profile == Profile::Quota {
            rm = Some([1u16, 2, 3, 7, 8, 9, 65535, 2][pick(w, t, 9, 8) as usize]);
        }
    }
    if !benign && (small || w.cfg.profile == Profile::Limits) {
        if pick(w, t, 10, 2) == 1 {
            let opts: [u32; 12] = [2, 4, 5, 6, 7, 9, 16, 24, 40, 64, 200, 2000];
            mps = Some(opts[pick(w, t, 11, 12) as usize]);
        }
        if pick(w, t, 12, 3) == 1 {
            mq = Some(pick(w, t, 13, 2) as u8);
        }
    }
    if !benign && (w.cfg.profile == Profile::Timing || small) {
        if pick(w, t, 14, 3) == 1 {
            ska = Some([0u16, 1, 2, 3, 4, 5, 9, 10, 11, 30, 100, 65535][pick(w, t, 15, 12) as usize]);
        }
    }
    if benign {
        // a conformant broker chooses its Receive Maximum per connection, also one below the
        // number of exchanges the resumed session still has under way
        rm = w.final_small_rm;
    }
    if let Some(v) = w.force_next_mps.take() {
        // (never on the prompt, conformant broker of the final reconnects: a Maximum Packet Size
        // of 2 makes every acknowledgement impossible)
        if !benign {
            mps = Some(v);
        }
    }
    if w.cfg.twin_receive_max > 0 {
        rm = Some(w.cfg.twin_receive_max);
    }
    let assign = need_id || (small && pick(w, t, 16, 8) == 0);
    if let Some(v) = rm {
        props.push(Prop { id: 0x21, val: PVal::U16(v) });
    }
    if let Some(v) = mps {
        props.push(Prop { id: 0x27, val: PVal::U32(v) });
    }
    if let Some(v) = mq {
        props.push(Prop { id: 0x24, val: PVal::Byte(v) });
    }
    if let Some(v) = ska {
        props.push(Prop { id: 0x13, val: PVal::U16(v) });
    }
    // informational properties a broker may add to any CONNACK: none of them changes what the
    // client is asked to do (C05: it still asks to resume next time, also when the broker cut
    // the Session Expiry Interval down to 0 - the broker will then simply report no session)
    if !benign && small && pick(w, t, 20, 2) == 1 {
        let n = 1 + pick(w, t, 21, 3);
        for i in 0..n {
            let q = t ^ (0x1F0 + i as u64);
            let pr = match pick(w, q, 22, 9) {
                0 => {
                    let v = [0u32, 0, 1, 3600, u32::MAX][pick(w, q, 23, 5) as usize];
                    if v == 0 {
                        w.broker_session_expiry_zero = true;
                        w.probe("connack_session_expiry_zero");
                    }
                    Prop { id: 0x11, val: PVal::U32(v) }
                }
                1 => Prop { id: 0x25, val: PVal::Byte(pick(w, q, 23, 2) as u8) },
                2 => Prop { id: 0x22, val: PVal::U16([0u16, 5, 65535][pick(w, q, 23, 3) as usize]) },
                3 => Prop { id: 0x1F, val: PVal::Str("ok".into()) },
                4 => Prop { id: 0x26, val: PVal::Pair("k".into(), "v".into()) },
                5 => Prop { id: 0x28, val: PVal::Byte(pick(w, q, 23, 2) as u8) },
                6 => Prop { id: 0x29, val: PVal::Byte(pick(w, q, 23, 2) as u8) },
                7 => Prop { id: 0x2A, val: PVal::Byte(pick(w, q, 23, 2) as u8) },
                _ => Prop { id: 0x1A, val: PVal::Str("resp/info".into()) },
            };
            if pr.id == 0x26 || !props.iter().any(|x| x.id == pr.id) {
                props.push(pr);
            }
        }
        w.probe("connack_informational_properties");
    }
    let mut assigned = None;
    if assign {
        let id = format!("assigned-{}", conn);
        assigned = Some(id.clone());
        props.push(Prop { id: 0x12, val: PVal::Str(id) });
    }
    // MQTT does not prescribe an order of the properties: shuffle them
    if !benign && props.len() > 1 {
        for i in (1..props.len()).rev() {
            let j = pick(w, t ^ 0x5AFE, 30 + i as u64, i as u32 + 1) as usize;
            props.swap(i, j);
        }
    }
    // The broker honours the client's Maximum Packet Size: drop optional properties until the
    // CONNACK fits the receive buffer.
    loop {
        let p = Packet::ConnAck { session_present: sp, reason: 0, props: props.clone() };
        if codec::encode(&p).len() <= w.cfg.rx_len || props.is_empty() {
            break;
        }
        let dropped = props.pop().unwrap();
        match dropped.id {
            0x21 => rm = None,
            0x27 => mps = None,
            0x24 => mq = None,
            0x13 => ska = None,
            0x12 => assigned = None,
            0x11 => w.broker_session_expiry_zero = false,
            _ => {}
        }
    }
    let c = &mut w.conns[conn];
    c.receive_max = rm.unwrap_or(65535);
    c.max_packet_size = mps;
    c.max_qos = mq.unwrap_or(2);
    c.max_qos_present = mq.is_some();
    c.server_keepalive = ska;
    c.assigned_id = assigned;
    c.session_present = sp;
    c.connack_sent = true;
    let p = Packet::ConnAck { session_present: sp, reason: 0, props };
    let d = delay_us(w, t, 17);
    send(w, conn, d, &p, RxMeta::ConnAck { session_present: sp, reason: 0, semantic_ok: true });
    if let Some(pieces) = w.raw_pieces_after_connack.take() {
        w.raw_mode = true;
        for (i, piece) in pieces.into_iter().enumerate() {
            let len = piece.len();
            w.schedule(d + i as u64 * 300 * US_PER_MS, Event::Deliver { conn, bytes: piece, metas: vec![(len, RxMeta::Raw)] });
        }
    }
    if let Some(raw) = w.raw_after_connack.take() {
        w.raw_mode = true;
        let len = raw.len();
        w.schedule(d, Event::Deliver { conn, bytes: raw, metas: vec![(len, RxMeta::Raw)] });
    }
    if sp {
        broker_retransmit(w, conn, d);
    }
}

/// On a resumed session the broker re-sends what the client has not acknowledged.
fn broker_retransmit(w: &mut World, conn: usize, after: u64) {
    for i in 0..w.bmsgs.len() {
        let m = &w.bmsgs[i];
        if m.qos == 0 || m.sent_on.is_empty() {
            continue;
        }
        match m.state {
            0 => {
                let p = Packet::Publish {
                    dup: true,
                    qos: m.qos,
                    retain: m.retain,
                    topic: m.topic.clone(),
                    id: m.id,
                    props: m.props.clone(),
                    payload: m.payload.clone(),
                };
                w.bmsgs[i].sent_on.push(conn);
                w.fault("broker_retransmit_publish");
                send(w, conn, after, &p, RxMeta::Publish { bmsg: i, dup: true });
            }
            1 => {
                let id = m.id.unwrap();
                w.fault("broker_retransmit_pubrel");
                let p = pubrel_packet(w, id, 0xB700 + i as u64);
                send(w, conn, after, &p, RxMeta::PubRel { id });
            }
            _ => {}
        }
    }
}

fn on_retained_class(w: &mut World, conn: usize, idx: usize, raw: &[u8], pkt: &Packet) {
    let (id, dup, qos) = match pkt {
        Packet::Publish { id, dup, qos, .. } => (*id, *dup, *qos),
        Packet::Subscribe { id, .. } => (Some(*id), false, 1),
        Packet::Unsubscribe { id, .. } => (Some(*id), false, 1),
        _ => unreachable!(),
    };
    let Some(tag) = w.conns[conn].packets[idx].tag else {
        w.violate(
            "C09",
            format!("unattributable/{}", pkt.type_name()),
            format!("{} on the wire that no request asked for: {:?}", pkt.type_name(), pkt),
        );
        return;
    };
    let Some(&ri) = w.req_by_tag.get(&tag) else {
        w.violate(
            "C09",
            format!("unattributable/{}", pkt.type_name()),
            format!("{} with unknown tag {tag}", pkt.type_name()),
        );
        return;
    };
    let rk = kind_of_req(&w.reqs[ri]);
    // C09: content
    if let Err(why) = same_request(pkt, &w.reqs[ri].expected) {
        w.violate("C09", format!("content/{rk}"), format!("tag {tag}: {why}"));
    }
    // refused requests must leave no trace
    if w.reqs[ri].accept == Accept::NotAccepted {
        let why = w.reqs[ri].refused_with.clone().unwrap_or_default();
        let prop = if why.contains("NotReady") {
            "C06"
        } else if why.contains("PacketTooLarge") {
            "C14"
        } else if w.reqs[ri].is_probe {
            "C19"
        } else {
            "C09"
        };
        w.violate(
            prop,
            format!("refused-request-on-wire/{rk}/{}", why),
            format!("request tag {tag} was refused with {why} but appears on the wire"),
        );
    }
    if w.reqs[ri].must_refuse {
        w.violate(
            "C19",
            format!("illegal-request-on-wire/{rk}"),
            format!("request tag {tag} carries a property MQTT 5 forbids there, yet it was transmitted"),
        );
    }
    if w.reqs[ri].accept == Accept::Maybe {
        w.reqs[ri].accept = Accept::Accepted;
    }
    if qos == 0 {
        let n = {
            let e = w.reqs[ri].tx_by_conn.entry(conn).or_insert(0);
            *e += 1;
            *e
        };
        let total: u32 = w.reqs[ri].tx_by_conn.values().sum();
        if n > 1 || total > 1 {
            w.violate(
                "C16",
                "qos0-sent-twice".into(),
                format!("QoS 0 publish tag {tag} transmitted {total} times"),
            );
        }
        w.reqs[ri].phase = Phase::Done(0);
        return;
    }
    let id = id.unwrap();
    if w.ids_ambiguous {
        return;
    }
    let prop_for = |r: &Req| match (r.kind, r.qos) {
        (ReqKind::Pub, 2) => "C03",
        (ReqKind::Pub, _) => "C02",
        _ => "C05",
    };
    let pf = prop_for(&w.reqs[ri]);
    // C05: nothing from before a fresh session
    if w.reqs[ri].invalidated || w.reqs[ri].epoch != w.epoch {
        if !w.reqs[ri].ambiguous {
            w.violate(
                "C05",
                format!("stale-after-fresh-session/{rk}"),
                format!("request tag {tag} of epoch {} transmitted in epoch {}", w.reqs[ri].epoch, w.epoch),
            );
        }
        return;
    }
    let first_time = w.reqs[ri].id.is_none() || w.reqs[ri].tx_by_conn.is_empty() && w.reqs[ri].id == Some(id);
    if w.reqs[ri].id.is_none() {
        // C07: identifier must not be in use by another unresolved operation of this session
        let clash = w.reqs.iter().position(|o| {
            o.tag != tag
                && o.epoch == w.epoch
                && !o.invalidated
                && o.accept != Accept::NotAccepted
                && o.id == Some(id)
                && unresolved(o)
                && o.qos > 0
        });
        if let Some(ci) = clash {
            w.violate(
                "C07",
                format!("id-in-use/{rk}-vs-{}", kind_of_req(&w.reqs[ci])),
                format!(
                    "identifier {id} given to request tag {tag} while request tag {} still waits for its final ack",
                    w.reqs[ci].tag
                ),
            );
            w.ids_ambiguous = true;
            for r in w.reqs.iter_mut() {
                r.ambiguous = true;
            }
            return;
        }
        w.reqs[ri].id = Some(id);
        w.last_client_id_seen = id;
    } else if w.reqs[ri].id != Some(id) {
        w.violate(
            pf,
            format!("id-changed/{rk}"),
            format!("request tag {tag} first used identifier {:?}, now {id}", w.reqs[ri].id),
        );
    }
    let _ = first_time;
    // C17 / C02: retransmission equals first transmission except DUP
    match w.reqs[ri].first_tx.clone() {
        None => w.reqs[ri].first_tx = Some(raw.to_vec()),
        Some(first) => {
            let first = &first;
            let mut a = first.clone();
            let mut b = raw.to_vec();
            a[0] &= !0x08;
            b[0] &= !0x08;
            if a != b {
                w.violate(
                    "C17",
                    format!("retransmission-differs/{rk}"),
                    format!(
                        "tag {tag}: first {} now {}",
                        crate::util::hex(first),
                        crate::util::hex(raw)
                    ),
                );
                if rk == "pub1" {
                    // C02: "DUP set and otherwise byte-identical content"
                    w.violate(
                        "C02",
                        "retransmission-not-byte-identical/pub1".into(),
                        format!("tag {tag}: first {} now {}", crate::util::hex(first), crate::util::hex(raw)),
                    );
                }
            }
        }
    }
    // phase checks
    match w.reqs[ri].phase {
        Phase::Done(_) => w.violate(
            pf,
            format!("sent-after-final-ack/{rk}"),
            format!("request tag {tag} transmitted after its final acknowledgement was received"),
        ),
        Phase::Release => w.violate(
            "C03",
            "publish-after-pubrec".into(),
            format!("QoS 2 PUBLISH tag {tag} re-sent after a successful PUBREC was received"),
        ),
        Phase::AwaitAck => {}
    }
    // once per connection
    let earlier_conn_tx = w.reqs[ri].tx_by_conn.keys().any(|c| *c < conn);
    let n = {
        let e = w.reqs[ri].tx_by_conn.entry(conn).or_insert(0);
        *e += 1;
        *e
    };
    if n > 1 {
        w.violate(
            pf,
            format!("sent-twice-on-one-connection/{rk}"),
            format!("request tag {tag} transmitted {n} times on connection {conn}"),
        );
        w.probe("retained_sent_twice");
    }
    if conn != w.reqs[ri].conn_issued || earlier_conn_tx {
        w.probe("retransmission_seen");
    }
    w.conns[conn].must_replay.remove(&tag);
    // DUP discipline (PUBLISH only)
    if let Packet::Publish { .. } = pkt {
        if earlier_conn_tx && !dup {
            w.violate(
                pf,
                format!("dup-missing/{rk}"),
                format!("tag {tag} was completely sent on an earlier connection but DUP is 0"),
            );
        }
        if conn == w.reqs[ri].conn_issued && dup {
            w.violate(
                pf,
                format!("dup-on-first-transmission/{rk}"),
                format!("tag {tag} carries DUP on the connection it was issued on"),
            );
        }
    }
    // C02 order: retained-class packets appear in acceptance order on every connection
    let seq = w.reqs[ri].issue_seq;
    let is_pub1 = w.reqs[ri].kind == ReqKind::Pub && w.reqs[ri].qos == 1;
    if let (true, Some(last)) = (is_pub1, w.conns[conn].last_retained_seq) {
        if seq < last {
            w.violate(
                pf,
                format!("order/{rk}"),
                format!("request tag {tag} (accepted #{seq}) sent after a request accepted later (#{last})"),
            );
        }
    }
    if is_pub1 {
        w.conns[conn].last_retained_seq = Some(seq);
    }
    // C05: everything unacknowledged is replayed before any new identifier-bearing packet
    if w.reqs[ri].conn_issued == conn && w.conns[conn].session_present {
        let pending: Vec<u32> = w.conns[conn]
            .must_replay
            .iter()
            .copied()
            .filter(|t| {
                let r = &w.reqs[w.req_by_tag[t]];
                unresolved(r) && !r.invalidated && !r.ambiguous
            })
            .collect();
        if !pending.is_empty() {
            w.violate(
                "C05",
                format!("new-before-replay/{rk}"),
                format!(
                    "new request tag {tag} sent on resumed connection {conn} before replay of tags {:?}",
                    pending
                ),
            );
        }
    }
    // C06 counting invariant (QoS>0 PUBLISH only)
    if let Packet::Publish { .. } = pkt {
        let rmax = w.conns[conn].receive_max as usize;
        let inflight = w
            .reqs
            .iter()
            .filter(|r| {
                r.kind == ReqKind::Pub
                    && r.qos > 0
                    && r.epoch == w.epoch
                    && !r.invalidated
                    && unresolved(r)
                    // sent on this connection - or on an earlier connection of the session this
                    // one resumes and still unresolved: "has sent ... still unresolved" does not
                    // end with the connection (C05 has them retransmitted first anyway)
                    && (r.tx_by_conn.get(&conn).copied().unwrap_or(0) > 0 || (w.conns[conn].session_present && r.tx_by_conn.values().any(|n| *n > 0)))
            })
            .count();
        if inflight > rmax {
            let resumed = if w.conns[conn].session_present { "resumed" } else { "fresh" };
            let via = if conn != w.reqs[ri].conn_issued { "replay" } else { "new" };
            let rel = w.reqs.iter().any(|r| {
                r.kind == ReqKind::Pub && r.qos == 2 && r.epoch == w.epoch && !r.invalidated && r.phase == Phase::Release && r.tx_by_conn.get(&conn).copied().unwrap_or(0) > 0
            });
            let rel = if rel { "with-qos2-awaiting-pubcomp" } else { "all-awaiting-first-ack" };
            let sig = if w.conns[conn].resume_overcommitted && via == "replay" {
                "receive-maximum-exceeded/replay-of-more-in-flight-publishes-than-the-new-receive-maximum".to_string()
            } else {
                format!("receive-maximum-exceeded/{resumed}/{via}/{rel}")
            };
            w.violate(
                "C06",
                sig,
                format!(
                    "{} unresolved QoS>0 PUBLISH sent on connection {} whose Receive Maximum is {}",
                    inflight, conn, rmax
                ),
            );
        }
        if inflight == rmax {
            w.probe("quota_window_full");
        }
        // auto-downgrade: never above the broker's Maximum QoS
        if w.cfg.downgrade && qos > w.conns[conn].max_qos && conn == w.reqs[ri].conn_issued {
            w.violate(
                "C19",
                "qos-above-broker-maximum".into(),
                format!("PUBLISH at QoS {} although broker Maximum QoS is {}", qos, w.conns[conn].max_qos),
            );
        }
    }
    // ---- broker reaction
    broker_ack_request(w, conn, ri, id);
}

fn broker_ack_request(w: &mut World, conn: usize, ri: usize, id: u16) {
    if w.hold_pubcomp && w.reqs[ri].kind == ReqKind::Pub && w.reqs[ri].qos == 2 {
        // dense identifier scenario: PUBREC at once, PUBCOMP withheld
        let p = Packet::Ack { typ: 5, id, reason: None, props: None };
        send(w, conn, 0, &p, RxMeta::Ack { typ: 5, id, reason: 0 });
        return;
    }
    let tag = w.reqs[ri].tag as u64;
    let attempt = w.reqs[ri].tx_by_conn.len() as u64;
    let t = (tag << 8) | attempt;
    if w.hold_acks || chance(w, t, 1, w.cfg.p_withhold_ack) {
        w.fault("ack_withheld");
        w.withheld.push((conn, ri));
        return;
    }
    let d = delay_us(w, t, 2);
    send_final_or_rec(w, conn, ri, id, d, t);
}

/// Send the broker's answer to a PUBLISH/SUBSCRIBE/UNSUBSCRIBE.
pub fn send_final_or_rec(w: &mut World, conn: usize, ri: usize, id: u16, d: u64, t: u64) {
    let fail = chance(w, t, 3, w.cfg.p_fail_reason);
    if fail {
        w.fault("ack_failure_code");
    }
    match (w.reqs[ri].kind, w.reqs[ri].qos) {
        (ReqKind::Pub, 1) => {
            let reason = if fail { [0x80u8, 0x83, 0x87, 0x90, 0x97, 0x99][pick(w, t, 4, 6) as usize] } else { [0u8, 0, 0x10][pick(w, t, 4, 3) as usize] };
            let short = pick(w, t, 5, 3);
            let p = Packet::Ack {
                typ: 4,
                id,
                reason: if reason == 0 && short == 0 { None } else { Some(reason) },
                props: if short == 2 { Some(vec![]) } else { None },
            };
            send(w, conn, d, &p, RxMeta::Ack { typ: 4, id, reason });
        }
        (ReqKind::Pub, _) => {
            let reason = if fail { [0x80u8, 0x83, 0x87, 0x90, 0x91, 0x97, 0x99][pick(w, t, 4, 7) as usize] } else { [0u8, 0, 0x10][pick(w, t, 4, 3) as usize] };
            let p = Packet::Ack {
                typ: 5,
                id,
                reason: if reason == 0 { None } else { Some(reason) },
                props: None,
            };
            send(w, conn, d, &p, RxMeta::Ack { typ: 5, id, reason });
        }
        (ReqKind::Sub, _) => {
            let n = match &w.reqs[ri].expected {
                Packet::Subscribe { filters, .. } => filters.len(),
                _ => 1,
            };
            let mut codes = Vec::new();
            for i in 0..n {
                let c = if fail && i == pick(w, t, 6, n as u32) as usize {
                    [0x80u8, 0x83, 0x87, 0x8F, 0x91, 0x97, 0x9E, 0xA1, 0xA2][pick(w, t, 7, 9) as usize]
                } else {
                    pick(w, t, 8 + i as u64, 3) as u8
                };
                codes.push(c);
            }
            let p = Packet::SubAck { typ: 9, id, props: vec![], codes: codes.clone() };
            send(w, conn, d, &p, RxMeta::SubAck { typ: 9, id, codes });
        }
        (ReqKind::Unsub, _) => {
            let n = match &w.reqs[ri].expected {
                Packet::Unsubscribe { filters, .. } => filters.len(),
                _ => 1,
            };
            let mut codes = Vec::new();
            for i in 0..n {
                let c = if fail && i == pick(w, t, 6, n as u32) as usize {
                    [0x80u8, 0x83, 0x87, 0x8F, 0x91][pick(w, t, 7, 5) as usize]
                } else {
                    [0u8, 0x11][pick(w, t, 8 + i as u64, 2) as usize]
                };
                codes.push(c);
            }
            let p = Packet::SubAck { typ: 11, id, props: vec![], codes: codes.clone() };
            send(w, conn, d, &p, RxMeta::SubAck { typ: 11, id, codes });
        }
    }
}

fn on_pubrel(w: &mut World, conn: usize, id: u16, reason: Option<u8>) {
    if w.ids_ambiguous {
        return;
    }
    let ri = w.reqs.iter().position(|r| {
        r.kind == ReqKind::Pub && r.qos == 2 && r.epoch == w.epoch && !r.invalidated && r.id == Some(id) && r.accept != Accept::NotAccepted
            && !matches!(r.phase, Phase::Done(_))
    });
    let ri = match ri {
        Some(ri) => ri,
        None => {
            // maybe one that is already done or from an older epoch
            let stale = w.reqs.iter().position(|r| r.kind == ReqKind::Pub && r.qos == 2 && r.id == Some(id));
            match stale {
                Some(si) if w.reqs[si].invalidated || w.reqs[si].epoch != w.epoch => {
                    if !w.reqs[si].ambiguous {
                        w.violate(
                            "C05",
                            "stale-after-fresh-session/pubrel".into(),
                            format!("PUBREL {id} of an exchange from before the fresh session"),
                        );
                    }
                }
                Some(si) if matches!(w.reqs[si].phase, Phase::Done(_)) => w.violate(
                    "C03",
                    "pubrel-after-pubcomp".into(),
                    format!("PUBREL {id} sent after PUBCOMP/failed PUBREC was received (tag {})", w.reqs[si].tag),
                ),
                _ => w.violate(
                    "C03",
                    "pubrel-unknown-id".into(),
                    format!("PUBREL {id} does not belong to any QoS 2 exchange"),
                ),
            }
            return;
        }
    };
    let tag = w.reqs[ri].tag;
    if reason.unwrap_or(0) != 0 {
        w.violate("C09", "pubrel-reason".into(), format!("PUBREL {id} carries reason {:?}", reason));
    }
    if w.reqs[ri].phase != Phase::Release {
        w.violate(
            "C03",
            "pubrel-before-pubrec".into(),
            format!("PUBREL {id} (tag {tag}) sent before a successful PUBREC was received"),
        );
    }
    let n = {
        let e = w.reqs[ri].rel_by_conn.entry(conn).or_insert(0);
        *e += 1;
        *e
    };
    if n > 1 {
        w.violate(
            "C03",
            "pubrel-twice-on-one-connection".into(),
            format!("PUBREL {id} (tag {tag}) sent {n} times on connection {conn}"),
        );
    }
    if w.reqs[ri].rel_by_conn.len() > 1 {
        w.probe("pubrel_replayed");
    }
    w.conns[conn].must_replay.remove(&tag);
    // order of replayed PUBRELs = order in which the PUBRECs were received
    if let Some(order) = w.reqs[ri].pubrec_order {
        let replay = w.reqs[ri].pubrec_conn != Some(conn);
        if replay {
            if let Some(last) = w.conns[conn].last_pubrel_order {
                if order < last {
                    w.violate(
                        "C03",
                        "pubrel-replay-order".into(),
                        format!("replayed PUBREL {id} (PUBREC #{order}) after one whose PUBREC came later (#{last})"),
                    );
                }
            }
            w.conns[conn].last_pubrel_order = Some(order);
        }
    }
    // broker reaction: PUBCOMP
    let t = ((tag as u64) << 8) | 0x80 | w.reqs[ri].rel_by_conn.len() as u64;
    if w.hold_pubcomp || chance(w, t, 1, w.cfg.p_withhold_ack) {
        w.fault("pubcomp_withheld");
        w.withheld_comp.push((conn, id));
        return;
    }
    let d = delay_us(w, t, 2);
    let fail = chance(w, t, 3, w.cfg.p_fail_reason);
    let reason = if fail { 0x92 } else { 0 };
    let p = Packet::Ack { typ: 7, id, reason: if reason == 0 { None } else { Some(reason) }, props: None };
    send(w, conn, d, &p, RxMeta::Ack { typ: 7, id, reason });
}

/// PUBACK / PUBREC / PUBCOMP written by the client for inbound messages (C04).
fn on_client_ack(w: &mut World, conn: usize, typ: u8, id: u16, reason: Option<u8>) {
    if w.raw_mode {
        return;
    }
    let got = (typ, id, reason.unwrap_or(0));
    let name = codec::type_name_of(typ);
    // optional re-sends of acks owed on an earlier connection come first, in order
    let mut matched = false;
    // (each carried acknowledgement is individually optional, but their order is kept)
    // (a reason left open when the acknowledgement became due - the client may remember exchanges
    // of a broker session that was lost behind its back - stays open when it is carried over)
    if let Some(pos) = w.conns[conn].carry_acks.iter().position(|&(t, i, r)| (t, i) == (got.0, got.1) && (r.is_none() || r == Some(got.2))) {
        let e = w.conns[conn].carry_acks[pos];
        w.conns[conn].carry_acks.drain(..=pos);
        w.conns[conn].unflushed_acks.push_back(e);
        w.probe("owed_ack_resent_after_reconnect");
        matched = true;
    }
    if !matched {
        match w.conns[conn].owed_acks.pop_front() {
            Some((t, i, r)) if (t, i) == (got.0, got.1) && (r.is_none() || r.unwrap_or(0) == got.2) => {
                w.conns[conn].unflushed_acks.push_back((t, i, Some(got.2)));
            }
            Some(other) => w.violate(
                "C04",
                format!("ack-order-or-content/{name}"),
                format!("client sent {name} id {id} reason {:?}, but next owed acknowledgement is {:?}", reason, other),
            ),
            None => w.violate(
                "C04",
                format!("unowed-ack/{name}"),
                format!("client sent {name} id {id} that answers nothing"),
            ),
        }
    }
    // broker state machine
    let bi = w.bmsgs.iter().position(|m| m.id == Some(id) && m.state != 2);
    match (typ, bi) {
        (4, Some(bi)) => w.bmsgs[bi].state = 2,
        (5, Some(bi)) => {
            if reason.unwrap_or(0) < 0x80 {
                w.bmsgs[bi].state = 1;
                if w.hold_pubrel {
                    // saturation scenario: the PUBREL does not come on this connection
                    w.fault("pubrel_withheld");
                    return;
                }
                let d = delay_us(w, 0xB000 + bi as u64, 1);
                let p = pubrel_packet(w, id, 0xB000 + bi as u64);
                send(w, conn, d, &p, RxMeta::PubRel { id });
                // occasionally the broker repeats the PUBREL
                if chance(w, 0xB000 + bi as u64, 2, w.cfg.p_dup_inbound) {
                    w.fault("broker_duplicate_pubrel");
                    send(w, conn, d, &p, RxMeta::PubRel { id });
                }
            } else {
                w.bmsgs[bi].state = 2;
            }
        }
        (7, Some(bi)) => w.bmsgs[bi].state = 2,
        _ => {}
    }
}

pub fn on_packet_complete(w: &mut World, conn: usize, idx: usize, t: u64) {
    // C10 (1): while the application keeps waiting, consecutive completed packets are at most
    // K_eff apart. Only meaningful in the timing profile (continuous poll, zero-time writes).
    let is_ping = matches!(w.conns[conn].packets[idx].pkt, Packet::PingReq);
    // C19: a refused request leaves no trace - not in the keep-alive schedule either. While the
    // application keeps waiting (simulated time passes only in its waits) and all writes are
    // accepted at once, a request that was refused since the last completed packet must not make
    // the next packet late. (k >= 10 and no PINGRESP outstanding: outside the open C10 finding.)
    if w.cfg.profile == Profile::Invalid && w.conns[conn].established && w.conns[conn].refused_since_last_complete && w.cfg.p_slow_write == 0 && w.cfg.p_peer_stall == 0 {
        if let (Some(k), Some(last)) = (keepalive_eff(w, conn), w.conns[conn].last_complete_t) {
            let outstanding = w.conns[conn].outstanding_at_last_complete;
            if k >= 10 && !outstanding && w.app_waiting_since.is_some_and(|s| s <= last) && t - last > k as u64 * US_PER_S {
                w.violate(
                    "C19",
                    "refused-request-changed-state/keep-alive-schedule".into(),
                    format!("{} us between completed client packets (effective keep-alive {} s) while the application kept waiting; a request was refused in between", t - last, k),
                );
            }
        }
    }
    w.conns[conn].refused_since_last_complete = false;
    if w.cfg.profile == Profile::Timing && w.conns[conn].established {
        if let (Some(k), Some(last)) = (keepalive_eff(w, conn), w.conns[conn].last_complete_t) {
            if k > 0 && w.app_waiting_since.is_some_and(|s| s <= last) {
                let gap = t - last;
                if gap > k as u64 * US_PER_S {
                    // was a PINGRESP still outstanding when the keep-alive ran out? (one that
                    // arrived within the keep-alive leaves the client free to send again)
                    let expiry = last + k as u64 * US_PER_S;
                    let answered_in_time = w.conns[conn].pingresp_consumed_t.is_some_and(|c| c > last && c <= expiry);
                    let outstanding = w.conns[conn].outstanding_at_last_complete && !answered_in_time;
                    w.violate(
                        "C10",
                        format!(
                            "gap-exceeds-keepalive/k={}/pingresp-outstanding={}",
                            if k <= 9 { "le9" } else { "gt9" },
                            outstanding
                        ),
                        format!("{} us between completed client packets, effective keep-alive {} s", gap, k),
                    );
                }
            }
        }
    }
    w.conns[conn].last_complete_t = Some(t);
    w.conns[conn].outstanding_at_last_complete = is_ping || w.conns[conn].pingreq_outstanding.is_some();
    if is_ping {
        w.conns[conn].pingreq_outstanding = Some(t);
        w.conns[conn].pingreq_first_offer = Some(w.conns[conn].packets[idx].t_first_offer);
        w.conns[conn].ping_times.push(t);
    }
}

/// An acknowledgement that matches no request of its own kind ("stale", a broker fault) may, by
/// coincidence, carry the identifier of a live request of *another* kind - e.g. an unsolicited
/// UNSUBACK 30000 sent when nothing used that identifier, read after a QoS 2 PUBLISH got it. An
/// acknowledgement of the wrong type for a live identifier is a broker protocol violation that
/// MQTT does not ask a client to survive (not injected on purpose, DESIGN section 4): what
/// becomes of that request is left open.
fn stale_ack_may_hit_live_request(w: &mut World, id: u16) {
    w.probe("stale_ack_consumed");
    let ep = w.epoch;
    let mut hit = false;
    for r in w.reqs.iter_mut() {
        if r.epoch == ep && !r.invalidated && r.accept != Accept::NotAccepted && r.id == Some(id) && !matches!(r.phase, Phase::Done(_)) && !r.ambiguous {
            r.ambiguous = true;
            hit = true;
        }
    }
    if hit {
        // outside the fault model: nothing that happens from here on is judged
        w.probe("wrong_type_ack_for_live_identifier");
        w.cut = true;
    }
}

// ------------------------------------------------------------------ broker -> client consumed

pub fn on_client_consumed(w: &mut World, conn: usize, meta: RxMeta) {
    w.log(|| format!("client consumed {:?}", meta));
    match meta {
        RxMeta::ConnAck { session_present, reason, semantic_ok } => {
            w.conns[conn].connack_consumed = true;
            if reason >= 0x80 {
                w.expect = Some(Expect::Reject(reason));
                return;
            }
            if !semantic_ok {
                // connect() must fail. If the broker said "no session" it has replaced the
                // session all the same: everything from before is stale from now on and the
                // earlier handles are invalidated. (What the next CONNECT asks for after that is
                // the one thing left open: the letter of C05 says "resume", minimq - pinned by a
                // test - starts clean again.)
                w.expect = Some(Expect::Invalid);
                if !session_present {
                    if w.ever_success_connack {
                        w.clean_start_ambiguous = true;
                    }
                    w.epoch += 1;
                    for r in w.reqs.iter_mut() {
                        r.invalidated = true;
                        r.ambiguous = false;
                    }
                    w.client_qos2_pending.clear();
                    w.client_qos2_ambiguous = false;
                    w.carry_over_acks.clear();
                    w.ids_ambiguous = false;
                    w.probe("fresh_session_in_rejected_connack");
                }
                return;
            }
            w.ever_success_connack = true;
            w.session_ambiguous = false;
            w.clean_start_ambiguous = false;
            w.conns[conn].established = true;
            w.conns[conn].t_connack_consumed = Some(clock::now());
            w.conns[conn].last_complete_t = Some(clock::now());
            if let Some(id) = w.conns[conn].assigned_id.clone() {
                w.expected_client_id = id;
            }
            if w.conns[conn].server_keepalive.is_some() {
                w.server_keepalive_seen = true;
            }
            if !session_present {
                w.epoch += 1;
                for r in w.reqs.iter_mut() {
                    r.invalidated = true;
                    r.ambiguous = false;
                }
                w.client_qos2_pending.clear();
                w.client_qos2_ambiguous = false;
                w.carry_over_acks.clear();
                w.ids_ambiguous = false;
                w.probe("fresh_session");
            } else {
                w.probe("resumed_session");
                let ep = w.epoch;
                let set: Vec<u32> = w
                    .reqs
                    .iter()
                    .filter(|r| r.epoch == ep && !r.invalidated && r.accept == Accept::Accepted && r.qos > 0 && unresolved(r))
                    .map(|r| r.tag)
                    .collect();
                if !set.is_empty() {
                    w.probe("resumed_with_inflight");
                }
                let pubs = w.reqs.iter().filter(|r| r.epoch == ep && !r.invalidated && r.accept != Accept::NotAccepted && r.kind == ReqKind::Pub && r.qos > 0 && unresolved(r)).count();
                if pubs > w.conns[conn].receive_max as usize {
                    w.conns[conn].resume_overcommitted = true;
                    w.probe("resumed_with_more_in_flight_than_receive_maximum");
                }
                w.conns[conn].must_replay = set.into_iter().collect();
                let carry = std::mem::take(&mut w.carry_over_acks);
                w.conns[conn].carry_acks = carry;
            }
            w.conns[conn].epoch = w.epoch;
        }
        RxMeta::Ack { typ, id, reason } => {
            if w.ids_ambiguous {
                return;
            }
            let ep = w.epoch;
            let find = |w: &World, want_qos: u8, want_phase: Phase| {
                w.reqs.iter().position(|r| {
                    r.kind == ReqKind::Pub
                        && r.qos == want_qos
                        && r.epoch == ep
                        && !r.invalidated
                        && r.accept != Accept::NotAccepted
                        && r.id == Some(id)
                        && r.phase == want_phase
                })
            };
            match typ {
                4 => {
                    if let Some(ri) = find(w, 1, Phase::AwaitAck) {
                        w.reqs[ri].phase = Phase::Done(reason);
                        if w.reqs[ri].tx_by_conn.get(&conn).is_none() {
                            w.probe("ack_for_not_yet_replayed");
                        }
                        if reason >= 0x80 {
                            w.expect = Some(Expect::Reject(reason));
                        }
                    } else {
                        stale_ack_may_hit_live_request(w, id);
                    }
                }
                5 => {
                    if let Some(ri) = find(w, 2, Phase::AwaitAck) {
                        if reason >= 0x80 {
                            w.reqs[ri].phase = Phase::Done(reason);
                            w.expect = Some(Expect::Reject(reason));
                        } else {
                            w.reqs[ri].phase = Phase::Release;
                            w.pubrec_seq += 1;
                            w.reqs[ri].pubrec_order = Some(w.pubrec_seq);
                            w.reqs[ri].pubrec_conn = Some(conn);
                        }
                    } else {
                        stale_ack_may_hit_live_request(w, id);
                    }
                }
                7 => {
                    if let Some(ri) = find(w, 2, Phase::Release) {
                        w.reqs[ri].phase = Phase::Done(reason);
                        if reason >= 0x80 {
                            w.expect = Some(Expect::Reject(reason));
                        }
                    } else {
                        stale_ack_may_hit_live_request(w, id);
                    }
                }
                _ => {}
            }
        }
        RxMeta::SubAck { typ, id, codes } => {
            if w.ids_ambiguous {
                return;
            }
            let ep = w.epoch;
            let kind = if typ == 9 { ReqKind::Sub } else { ReqKind::Unsub };
            let ri = w.reqs.iter().position(|r| {
                r.kind == kind && r.epoch == ep && !r.invalidated && r.accept != Accept::NotAccepted && r.id == Some(id) && r.phase == Phase::AwaitAck
            });
            if let Some(ri) = ri {
                let bad = codes.iter().copied().find(|c| *c >= 0x80);
                w.reqs[ri].phase = Phase::Done(bad.unwrap_or(0));
                if let Some(b) = bad {
                    w.expect = Some(Expect::Reject(b));
                }
            } else {
                stale_ack_may_hit_live_request(w, id);
            }
        }
        RxMeta::Publish { bmsg, dup } => {
            let (qos, id) = (w.bmsgs[bmsg].qos, w.bmsgs[bmsg].id);
            let pend = format!("{:?}", w.client_qos2_pending);
            w.log(|| format!("  inbound PUBLISH qos={qos} id={id:?} dup={dup}; client-side pending QoS 2 ids (model): {pend}"));
            if dup {
                w.probe("inbound_dup_consumed");
            }
            match qos {
                0 => w.conns[conn].expect_deliver.push_back(bmsg),
                1 => {
                    // (an identifier the client still holds as an unreleased QoS 2 delivery - only
                    // possible after the broker lost its session unnoticed - is flagged 0x91)
                    if w.client_qos2_pending.contains(&id.unwrap()) {
                        // MQTT does not prescribe the answer: any reason code, delivered or not
                        w.conns[conn].owed_acks.push_back((4, id.unwrap(), None));
                        w.conns[conn].optional_deliver.push(bmsg);
                        w.probe("inbound_id_clashes_with_stale_qos2_state");
                    } else {
                        w.conns[conn].owed_acks.push_back((4, id.unwrap(), Some(0)));
                        w.conns[conn].expect_deliver.push_back(bmsg);
                    }
                }
                _ => {
                    let id = id.unwrap();
                    if w.client_qos2_pending.contains(&id) {
                        w.conns[conn].owed_acks.push_back((5, id, Some(0)));
                        w.probe("inbound_qos2_duplicate_suppressed");
                    } else if w.client_qos2_pending.len() >= w.client_receive_max.unwrap_or(65535) as usize {
                        // The client's advertised Receive Maximum is exhausted (only possible when
                        // the broker forgot exchanges the client still remembers): refuse, do not
                        // deliver.
                        // any reason code; delivering it anyway would be just as defensible
                        w.conns[conn].owed_acks.push_back((5, id, None));
                        w.conns[conn].optional_deliver.push(bmsg);
                        w.probe("inbound_qos2_receive_maximum_exhausted");
                    } else {
                        w.client_qos2_pending.insert(id);
                        w.conns[conn].owed_acks.push_back((5, id, Some(0)));
                        w.conns[conn].expect_deliver.push_back(bmsg);
                    }
                }
            }
        }
        RxMeta::PubRel { id } => {
            let reason = if w.client_qos2_pending.remove(&id) { 0 } else { 0x92 };
            if reason != 0 {
                w.probe("pubrel_for_unknown_id");
            }
            w.conns[conn].owed_acks.push_back((7, id, Some(reason)));
        }
        RxMeta::SecondConnAck => {
            w.expect = Some(Expect::MaybeInvalid);
        }
        RxMeta::PingResp => {
            w.conns[conn].pingresp_available_t = None;
            if let Some(t) = w.conns[conn].pingreq_outstanding.take() {
                w.conns[conn].pingresp_consumed_for = Some(t);
                w.conns[conn].pingresp_consumed_t = Some(clock::now());
            }
        }
        RxMeta::Disconnect => {
            w.conns[conn].broker_disconnect_consumed = true;
            w.expect = Some(Expect::Disconnected);
        }
        RxMeta::Garbage => {
            w.expect = Some(Expect::Invalid);
        }
        RxMeta::Partial => {
            w.expect = Some(Expect::InvalidOrEof);
        }
        RxMeta::DupPubRec { reason } => {
            w.probe("duplicate_pubrec_consumed");
            if reason >= 0x80 {
                w.expect = Some(Expect::MaybeReject(reason));
            }
        }
        RxMeta::Raw => {}
    }
}

// ------------------------------------------------------------------ broker-initiated traffic

fn s2c_publish_props(w: &mut World, t: u64) -> Vec<Prop> {
    let mut v = Vec::new();
    let n = pick(w, t, 40, 4);
    for i in 0..n as u64 {
        let p = match pick(w, t, 41 + i, 9) {
            0 => Prop { id: 0x01, val: PVal::Byte(pick(w, t, 50 + i, 2) as u8) },
            1 => Prop { id: 0x02, val: PVal::U32(pick(w, t, 50 + i, 100000)) },
            2 => Prop { id: 0x03, val: PVal::Str("text/plain".into()) },
            3 => Prop { id: 0x08, val: PVal::Str(format!("resp/{}", i)) },
            4 => Prop { id: 0x09, val: PVal::Bin(vec![i as u8, 0, 0xFF, 7]) },
            5 => Prop { id: 0x0B, val: PVal::Var([1u32, 127, 128, 16384, 268_435_455][pick(w, t, 50 + i, 5) as usize]) },
            6 => Prop { id: 0x26, val: PVal::Pair(format!("k{i}"), "v".repeat(pick(w, t, 50 + i, 5) as usize)) },
            7 => Prop { id: 0x26, val: PVal::Pair(String::new(), String::new()) },
            _ => Prop { id: 0x0B, val: PVal::Var(1 + i as u32) },
        };
        let multi = p.id == 0x26 || p.id == 0x0B;
        if multi || !v.iter().any(|q: &Prop| q.id == p.id) {
            v.push(p);
        }
    }
    v
}

/// The broker publishes something to the client (respecting the client's Receive Maximum and
/// Maximum Packet Size). Returns false if it could not (window full / too large).
pub fn broker_publish(w: &mut World, conn: usize) -> bool {
    if !w.conns[conn].connack_sent || w.conns[conn].closed_by_broker {
        return false;
    }
    let btag = w.next_btag;
    let t = 0xA0000 + btag as u64;
    let drawn = pick(w, t, 1, 3) as u8;
    let qos = w.force_inbound_qos.unwrap_or(drawn);
    if qos > 0 {
        let inflight = w.bmsgs.iter().filter(|m| m.qos > 0 && m.state != 2).count();
        if inflight >= w.client_receive_max.unwrap_or(65535) as usize {
            return false;
        }
    }
    w.next_btag += 1;
    let id = if qos > 0 {
        // an identifier not in use by another in-flight message
        loop {
            let id = w.next_broker_id;
            w.next_broker_id = if id == u16::MAX { 1 } else { id + 1 };
            if !w.bmsgs.iter().any(|m| m.state != 2 && m.id == Some(id)) {
                break Some(id);
            }
        }
    } else {
        None
    };
    let topic = format!("in/{}", btag);
    let props = s2c_publish_props(w, t);
    let retain = pick(w, t, 2, 4) == 0;
    let mut payload_len = match pick(w, t, 3, 5) {
        0 => 0,
        1 => 1,
        2 => pick(w, t, 4, 32) as usize,
        3 => pick(w, t, 4, 300) as usize,
        _ => w.cfg.rx_len, // as large as fits
    };
    let mk = |payload_len: usize, props: &Vec<Prop>| Packet::Publish {
        dup: false,
        qos,
        retain,
        topic: topic.clone(),
        id,
        props: props.clone(),
        payload: (0..payload_len).map(|i| (btag as usize + i) as u8).collect(),
    };
    let mut props = props;
    let mut p = mk(payload_len, &props);
    let mut len = codec::encode(&p).len();
    if len > w.cfg.rx_len {
        let over = len - w.cfg.rx_len;
        if payload_len >= over + 3 {
            payload_len -= over + pick(w, t, 5, 3) as usize; // exactly rx_len, rx_len-1, rx_len-2
        } else {
            payload_len = 0;
        }
        p = mk(payload_len, &props);
        len = codec::encode(&p).len();
        // shrinking the payload may shrink the length field too; fix up to hit the boundary
        if len > w.cfg.rx_len {
            props.clear();
            payload_len = 0;
            p = mk(payload_len, &props);
            len = codec::encode(&p).len();
            if len > w.cfg.rx_len {
                return false;
            }
        }
        if len == w.cfg.rx_len {
            w.probe("inbound_fills_rx_buffer");
        }
    }
    let Packet::Publish { payload, .. } = &p else { unreachable!() };
    let bi = w.bmsgs.len();
    w.bmsgs.push(BMsg {
        btag,
        qos,
        id,
        retain,
        topic: topic.clone(),
        payload: payload.clone(),
        props: props.clone(),
        state: if qos == 0 { 2 } else { 0 },
        sent_on: vec![conn],
        deliveries: 0,
    });
    let d = delay_us(w, t, 6);
    w.stats.ops.entry("broker_publish").and_modify(|v| *v += 1).or_insert(1);
    send(w, conn, d, &p, RxMeta::Publish { bmsg: bi, dup: false });
    // duplicate QoS 2 PUBLISH before PUBREL (a retransmission the client must tolerate)
    if qos == 2 && chance(w, t, 7, w.cfg.p_dup_inbound) {
        w.fault("broker_duplicate_qos2_publish");
        let mut dp = p.clone();
        if let Packet::Publish { dup, .. } = &mut dp {
            *dup = true;
        }
        let d2 = d + delay_us(w, t, 8);
        send(w, conn, d2, &dp, RxMeta::Publish { bmsg: bi, dup: true });
    }
    true
}

/// Misbehaviour a client must tolerate (or fail cleanly on).
pub fn broker_fault(w: &mut World, conn: usize) {
    if !w.conns[conn].connack_sent || w.conns[conn].closed_by_broker {
        return;
    }
    let t = 0xF0000 + w.event_no;
    match pick(w, t, 1, 9) {
        8 => {
            // a second CONNACK in the middle of the connection (protocol violation by the peer)
            if w.conns[conn].connack_consumed && !w.raw_mode {
                w.fault("second_connack");
                let p = Packet::ConnAck { session_present: pick(w, t, 8, 2) == 1, reason: 0, props: vec![] };
                send(w, conn, 0, &p, RxMeta::SecondConnAck);
            }
        }
        7 if w.cfg.id_burn == 0 => {
            // a second PUBREC (success or failure code) for an exchange that is already in its
            // release phase: the exchange must go on (PUBREL until PUBCOMP)
            let ep = w.epoch;
            let r = w.reqs.iter().find(|r| r.kind == ReqKind::Pub && r.qos == 2 && r.epoch == ep && !r.invalidated && r.phase == Phase::Release && r.id.is_some());
            if let Some(r) = r {
                let id = r.id.unwrap();
                let reason = [0u8, 0x10, 0x80, 0x91, 0x97][pick(w, t, 7, 5) as usize];
                w.fault("duplicate_pubrec_in_release_phase");
                let p = Packet::Ack { typ: 5, id, reason: if reason == 0 { None } else { Some(reason) }, props: None };
                send(w, conn, 0, &p, RxMeta::DupPubRec { reason });
            }
        }
        6 => {
            // malformed bytes from a buggy peer or middlebox, then the stream ends
            w.fault("broker_garbage");
            let g: Vec<u8> = match pick(w, t, 6, 5) {
                0 => vec![0x00, 0x00],
                1 => vec![0x30, 0xFF, 0xFF, 0x7F],
                2 => vec![0xD0, 0x80, 0x80, 0x80, 0x80, 0x01],
                3 => vec![0x36, 0x03, 0x00, 0x01, b'a'],
                _ => vec![0xD0, 0x01, 0x00],
            };
            send_raw(w, conn, 0, g, RxMeta::Garbage);
            w.schedule(0, Event::Close { conn });
        }
        0 => {
            // stale / unknown acknowledgement: an identifier far away from anything in use
            let id = w.last_client_id_seen.wrapping_add(30000).max(1);
            let in_use = w.reqs.iter().any(|r| r.id == Some(id) && unresolved(r));
            let unknown_ids = w.reqs.iter().any(|r| r.accept != Accept::NotAccepted && r.qos > 0 && r.id.is_none() && unresolved(r) && !r.invalidated);
            if in_use || unknown_ids {
                return;
            }
            let typ = [4u8, 5, 7, 9, 11][pick(w, t, 2, 5) as usize];
            w.fault("stale_ack");
            if typ == 9 || typ == 11 {
                let p = Packet::SubAck { typ, id, props: vec![], codes: vec![0] };
                send(w, conn, 0, &p, RxMeta::SubAck { typ, id, codes: vec![0] });
            } else {
                let p = Packet::Ack { typ, id, reason: None, props: None };
                send(w, conn, 0, &p, RxMeta::Ack { typ, id, reason: 0 });
            }
        }
        1 if w.cfg.id_burn == 0 => {
            // duplicate of an acknowledgement that was already consumed (not in runs where
            // identifiers are reused: the duplicate would then hit a live operation of another
            // kind, which is a broker protocol violation, not a retransmission)
            let done = w.reqs.iter().rev().find(|r| matches!(r.phase, Phase::Done(0)) && r.id.is_some() && r.epoch == w.epoch && r.qos > 0 && r.kind == ReqKind::Pub);
            if let Some(r) = done {
                let id = r.id.unwrap();
                let reused = w.reqs.iter().any(|o| o.id == Some(id) && unresolved(o) && o.epoch == w.epoch);
                let unknown_ids = w.reqs.iter().any(|r| r.accept != Accept::NotAccepted && r.qos > 0 && r.id.is_none() && unresolved(r) && !r.invalidated);
                if reused || unknown_ids {
                    return;
                }
                let typ = if r.qos == 1 { 4 } else { 7 };
                w.fault("duplicate_ack");
                let p = Packet::Ack { typ, id, reason: None, props: None };
                send(w, conn, 0, &p, RxMeta::Ack { typ, id, reason: 0 });
            }
        }
        2 => {
            // PUBREL for an identifier the client does not know
            let id = 40000 + pick(w, t, 3, 1000) as u16;
            if w.client_qos2_pending.contains(&id) || w.bmsgs.iter().any(|m| m.id == Some(id) && m.state != 2) {
                return;
            }
            w.fault("unknown_pubrel");
            let p = pubrel_packet(w, id, t ^ 0x7E0);
            send(w, conn, 0, &p, RxMeta::PubRel { id });
        }
        3 => {
            w.fault("broker_disconnect");
            let reason = [0x00u8, 0x81, 0x8B, 0x8D, 0x8E, 0x98][pick(w, t, 4, 6) as usize];
            let p = match pick(w, t, 5, 3) {
                0 => Packet::Disconnect { reason: None, props: None },
                1 => Packet::Disconnect { reason: Some(reason), props: None },
                _ => Packet::Disconnect { reason: Some(reason), props: Some(vec![Prop { id: 0x1F, val: PVal::Str("bye".into()) }]) },
            };
            if codec::encode(&p).len() <= w.cfg.rx_len {
                send(w, conn, 0, &p, RxMeta::Disconnect);
                w.schedule(0, Event::Close { conn });
            }
        }
        4 => {
            w.fault("broker_eof");
            w.schedule(0, Event::Close { conn });
        }
        _ => {
            w.fault("unsolicited_pingresp");
            send(w, conn, 0, &Packet::PingResp, RxMeta::PingResp);
        }
    }
}

/// Benign continuation: the broker now answers everything it had withheld on `conn`.
pub fn release_withheld(w: &mut World, conn: usize) {
    let wh = std::mem::take(&mut w.withheld);
    for (c, ri) in wh {
        if c != conn {
            continue;
        }
        if let Some(id) = w.reqs[ri].id {
            if w.reqs[ri].phase == Phase::AwaitAck && !w.reqs[ri].invalidated {
                send_final_or_rec(w, conn, ri, id, 0, 0);
            }
        }
    }
    let wc = std::mem::take(&mut w.withheld_comp);
    for (c, id) in wc {
        if c != conn {
            continue;
        }
        let p = Packet::Ack { typ: 7, id, reason: None, props: None };
        send(w, conn, 0, &p, RxMeta::Ack { typ: 7, id, reason: 0 });
    }
}
