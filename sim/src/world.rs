//! The simulated world: choice tape, event queue, transports, and the shared oracles' state.
//! One `World` per run, stored in a thread-local so that `SimIo` carries only an index.

use crate::clock;
use crate::codec::{self, DecErr, Dir, Packet, Prop};
use crate::util::Tape;
use std::cell::RefCell;
use std::collections::{BTreeMap, BTreeSet, VecDeque};

thread_local! {
    static WORLD: RefCell<Option<Box<World>>> = const { RefCell::new(None) };
}

pub fn install(w: Box<World>) {
    WORLD.with(|c| *c.borrow_mut() = Some(w));
}
pub fn uninstall() -> Box<World> {
    WORLD.with(|c| c.borrow_mut().take().expect("world installed"))
}
pub fn with<R>(f: impl FnOnce(&mut World) -> R) -> R {
    WORLD.with(|c| {
        let mut g = c.borrow_mut();
        f(g.as_mut().expect("world installed"))
    })
}

// ------------------------------------------------------------------ violations

#[derive(Clone, Debug)]
pub struct Violation {
    pub prop: &'static str,
    /// Narrow signature: property / rule / discriminating context.
    pub sig: String,
    pub detail: String,
    pub at_event: u64,
}

// ------------------------------------------------------------------ configuration (swarm)

#[derive(Clone, Debug)]
pub struct WillCfg {
    /// order of the builder calls: 0 = qos then retained, 1 = retained then qos, 2 = qos(other), retained, qos
    pub build_order: u8,
    pub topic: String,
    pub payload: Vec<u8>,
    pub qos: u8,
    pub retain: bool,
    pub props: Vec<Prop>,
}

#[derive(Clone, Debug)]
pub struct RunCfg {
    pub profile: Profile,
    pub rx_len: usize,
    pub tx_len: usize,
    pub keepalive_s: u16,
    pub client_id: String,
    pub will: Option<WillCfg>,
    pub auth: Option<(String, Vec<u8>)>,
    pub session_expiry: u32,
    pub downgrade: bool,
    pub id_burn: u32,
    pub max_conns: u32,
    pub max_steps: u32,
    // I/O schedule (per mille)
    pub p_partial_write: u32,
    pub p_frag_read: u32,
    pub p_stall: u32,
    pub p_io_err: u32,
    pub p_cancel: u32,
    /// non-conformant transport: `write` returns Ok(0) for a non-empty buffer (minimq reports
    /// WriteZero and keeps the connection); off in most runs
    pub p_write_zero: u32,
    /// slow link: a write stays pending for a random *simulated* duration (1 ms .. 6 s), so that
    /// the client's timers run while a packet is partially written
    pub p_slow_write: u32,
    /// stalled peer: an inbound delivery is cut inside a packet and the rest (and everything
    /// behind it) arrives 1 ms .. 40 s later, or not before the benign continuation
    pub p_peer_stall: u32,
    /// the flush of a completely written PINGREQ stays pending once and the application drops
    /// the operation there (timing profile)
    pub p_ping_flush_cancel: u32,
    /// twin runs with a keep-alive in which time passes only in script steps: both executions
    /// have the same timing and are compared PINGREQs included
    pub twin_same_timing: bool,
    /// twin scripts: the application's polls give up after this long (0 = never)
    pub twin_poll_budget_us: u64,
    /// twin scripts: publish (QoS 1/2), subscribe and unsubscribe have that timeout too
    pub twin_request_budget: bool,
    /// twin scripts: Receive Maximum of every CONNACK (0 = none)
    pub twin_receive_max: u16,
    /// writes/flushes never stall or fail; used by timing profiles
    pub zero_time_io: bool,
    // broker policy (per mille)
    pub p_withhold_ack: u32,
    pub p_fail_reason: u32,
    pub p_stale_ack: u32,
    pub p_session_loss: u32,
    pub p_connack_fault: u32,
    pub p_small_limits: u32,
    pub p_dup_inbound: u32,
    pub p_no_pingresp: u32,
    pub delay_law: u32,
    // op mix weights
    pub w: OpWeights,
    /// generator avoidance guards for open known findings (see DESIGN §8)
    pub guards: bool,
    pub payload_law: u32,
    /// 0 = normal, 1 = 300 kB arena, 2 = 4.4 MB arena (length-boundary runs)
    pub big: u8,
    /// IdWrap: start with a dense block of long-lived identifiers
    pub dense_ids: bool,
}

#[derive(Clone, Debug, Default)]
pub struct OpWeights {
    pub poll: u32,
    pub pub0: u32,
    pub pub1: u32,
    pub pub2: u32,
    pub sub: u32,
    pub unsub: u32,
    pub drive: u32,
    pub recv: u32,
    pub disconnect: u32,
    pub drop_conn: u32,
    pub forget_conn: u32,
    pub broker_pub: u32,
    pub broker_fault: u32,
    pub sleep: u32,
    pub invalid: u32,
}

#[derive(Copy, Clone, Debug, PartialEq, Eq, PartialOrd, Ord)]
pub enum Profile {
    General,
    Qos1,
    Qos2,
    Inbound,
    Sessions,
    Quota,
    IdWrap,
    Limits,
    Timing,
    Aging,
    Invalid,
    Twin,
}

// ------------------------------------------------------------------ transports

#[derive(Copy, Clone, Debug, PartialEq, Eq)]
pub enum Blocked {
    None,
    ReadNoData,
    ReadStall,
    WriteStall,
    FlushStall,
    /// write pending until a simulated instant
    WriteSlow,
}

#[derive(Clone, Debug)]
pub struct WirePacket {
    pub start: usize,
    pub len: usize,
    pub pkt: Packet,
    pub t_last_byte: u64,
    /// when the first byte of the packet was first offered to `write`
    pub t_first_offer: u64,
    pub t_flushed: Option<u64>,
    /// request tag this packet belongs to (PUBLISH/SUBSCRIBE/UNSUBSCRIBE), if any
    pub tag: Option<u32>,
}

/// What the broker put on the wire towards the client, with the offset at which it ends, so that
/// "received by the client" can be decided by the client's own `read` calls.
#[derive(Clone, Debug)]
pub struct RxItem {
    pub end: usize,
    pub meta: RxMeta,
}

#[derive(Clone, Debug)]
pub enum RxMeta {
    ConnAck {
        session_present: bool,
        reason: u8,
        semantic_ok: bool,
    },
    /// terminal or intermediate ack for a client request
    Ack { typ: u8, id: u16, reason: u8 },
    SubAck { typ: u8, id: u16, codes: Vec<u8> },
    Publish { bmsg: usize, dup: bool },
    PubRel { id: u16 },
    PingResp,
    Disconnect,
    Garbage,
    /// bytes that may be an incomplete packet (followed by EOF)
    Partial,
    /// raw bytes outside the ledger (enumeration scenarios judge them themselves)
    Raw,
    /// duplicate PUBREC for an exchange already in its release phase
    DupPubRec { reason: u8 },
    /// a second CONNACK on an established connection
    SecondConnAck,
}

pub struct ConnState {
    pub id: usize,
    // client -> broker
    pub wire: Vec<u8>,
    pub parsed: usize,
    pub packets: Vec<WirePacket>,
    pub wire_broken: bool,
    pub saw_disconnect: bool,
    pub unflushed_from: usize, // index into packets of first packet not yet flushed
    // broker -> client
    pub rx_ready: VecDeque<u8>,
    /// inbound bytes held back by a peer that stalled in the middle of a packet
    pub rx_held: VecDeque<u8>,
    pub rx_hold: bool,
    pub rx_total_enqueued: usize,
    pub rx_consumed: usize,
    pub rx_items: VecDeque<RxItem>,
    pub eof: bool,
    pub io_error: Option<embedded_io_async::ErrorKind>,
    /// set once the client handle was dropped/forgotten or the broker closed
    pub closed_by_client: bool,
    pub closed_by_broker: bool,
    // counters
    pub write_blocked_until: u64,
    /// end of the latest slow-link period (stays set after the link is fast again)
    pub last_slow_write_until: u64,
    /// time of the first write call that offered the packet now being written
    pub first_offer_t: Option<u64>,
    /// first-offer time of the PINGREQ that is outstanding
    pub pingreq_first_offer: Option<u64>,
    pub n_read: u64,
    pub n_write: u64,
    pub n_flush: u64,
    pub blocked: Blocked,
    pub stall_run: u32,
    // negotiated (from the CONNACK the broker sent on this connection)
    pub connack_sent: bool,
    pub connack_consumed: bool,
    pub established: bool, // client consumed a success CONNACK
    pub session_present: bool,
    pub receive_max: u16,
    pub max_packet_size: Option<u32>,
    pub max_qos: u8,
    pub max_qos_present: bool,
    pub server_keepalive: Option<u16>,
    pub connect_keepalive: u16,
    pub assigned_id: Option<String>,
    /// epoch of the session this connection runs in (set when CONNACK is consumed)
    pub epoch: u32,
    /// requests that were unresolved when the (resumed) CONNACK was consumed: must be retransmitted
    pub must_replay: BTreeSet<u32>,
    /// inbound acks the client owes on this connection, in arrival order
    pub owed_acks: VecDeque<(u8, u16, Option<u8>)>,
    /// owed acks inherited from earlier connections (optional re-sends)
    pub carry_acks: VecDeque<(u8, u16, Option<u8>)>,
    /// a request was refused locally since the last completed client packet (C19)
    pub refused_since_last_complete: bool,
    /// when the PINGRESP now waiting in the receive queue became readable
    pub pingresp_available_t: Option<u64>,
    /// expected deliveries (bmsg index) not yet returned by poll/recv/drive
    pub expect_deliver: VecDeque<usize>,
    /// deliveries the model leaves open (stale client-side QoS 2 state)
    pub optional_deliver: Vec<usize>,
    /// C10 bookkeeping
    pub last_complete_t: Option<u64>,
    pub pingreq_outstanding: Option<u64>, // completion time of unanswered PINGREQ
    pub pingresp_consumed_for: Option<u64>,
    /// when the client consumed the most recent PINGRESP
    pub pingresp_consumed_t: Option<u64>,
    pub broker_disconnect_consumed: bool,
    pub ping_times: Vec<u64>,
    pub last_retained_seq: Option<u64>,
    pub last_pubrel_order: Option<u64>,
    /// remainder of the buffer last offered to `write` while the stream is inside a packet
    pub pending_offer: Option<Vec<u8>>,
    pub eof_read: bool,
    pub bytes_moved: u64,
    /// acks completely written but whose flush has not completed (client may re-send them)
    pub unflushed_acks: VecDeque<(u8, u16, Option<u8>)>,
    pub outstanding_at_last_complete: bool,
    pub disconnect_cancelled: bool,
    pub t_connack_consumed: Option<u64>,
    pub resume_overcommitted: bool,
}

impl ConnState {
    pub fn new(id: usize) -> Self {
        Self {
            id,
            wire: Vec::new(),
            parsed: 0,
            packets: Vec::new(),
            wire_broken: false,
            saw_disconnect: false,
            unflushed_from: 0,
            rx_ready: VecDeque::new(),
            rx_held: VecDeque::new(),
            rx_hold: false,
            rx_total_enqueued: 0,
            rx_consumed: 0,
            rx_items: VecDeque::new(),
            eof: false,
            io_error: None,
            closed_by_client: false,
            closed_by_broker: false,
            n_read: 0,
            n_write: 0,
            n_flush: 0,
            blocked: Blocked::None,
            write_blocked_until: 0,
            last_slow_write_until: 0,
            first_offer_t: None,
            pingreq_first_offer: None,
            stall_run: 0,
            connack_sent: false,
            connack_consumed: false,
            established: false,
            session_present: false,
            receive_max: 65535,
            max_packet_size: None,
            max_qos: 2,
            max_qos_present: false,
            server_keepalive: None,
            connect_keepalive: 0,
            assigned_id: None,
            epoch: 0,
            must_replay: BTreeSet::new(),
            owed_acks: VecDeque::new(),
            carry_acks: VecDeque::new(),
            refused_since_last_complete: false,
            pingresp_available_t: None,
            expect_deliver: VecDeque::new(),
            optional_deliver: Vec::new(),
            last_complete_t: None,
            pingreq_outstanding: None,
            pingresp_consumed_for: None,
            pingresp_consumed_t: None,
            broker_disconnect_consumed: false,
            ping_times: Vec::new(),
            last_retained_seq: None,
            last_pubrel_order: None,
            pending_offer: None,
            eof_read: false,
            bytes_moved: 0,
            unflushed_acks: VecDeque::new(),
            outstanding_at_last_complete: false,
            disconnect_cancelled: false,
            t_connack_consumed: None,
            resume_overcommitted: false,
        }
    }
    pub fn io_calls(&self) -> u64 {
        self.n_read + self.n_write + self.n_flush
    }
}

// ------------------------------------------------------------------ ledger

#[derive(Copy, Clone, Debug, PartialEq, Eq)]
pub enum Accept {
    NotAccepted,
    Maybe,
    Accepted,
}

#[derive(Copy, Clone, Debug, PartialEq, Eq)]
pub enum ReqKind {
    Pub,
    Sub,
    Unsub,
}

#[derive(Copy, Clone, Debug, PartialEq, Eq)]
pub enum Phase {
    /// waiting for PUBACK / PUBREC / SUBACK / UNSUBACK
    AwaitAck,
    /// QoS 2: successful PUBREC received, waiting for PUBCOMP
    Release,
    /// final ack received (value = reason code)
    Done(u8),
}

pub struct Req {
    pub tag: u32,
    pub kind: ReqKind,
    /// QoS actually expected on the wire (after auto-downgrade)
    pub qos: u8,
    /// The packet the request must decode to (packet id = 0 placeholder)
    pub expected: Packet,
    pub conn_issued: usize,
    pub epoch: u32,
    pub accept: Accept,
    pub refused_with: Option<String>,
    pub id: Option<u16>,
    pub first_tx: Option<Vec<u8>>,
    /// complete transmissions of the PUBLISH/SUBSCRIBE/UNSUBSCRIBE per connection
    pub tx_by_conn: BTreeMap<usize, u32>,
    pub rel_by_conn: BTreeMap<usize, u32>,
    pub phase: Phase,
    pub pubrec_order: Option<u64>,
    pub pubrec_conn: Option<usize>,
    pub handle: Option<minimq::Op>,
    pub issue_seq: u64,
    pub invalidated: bool,
    /// status can no longer be predicted (ambiguous CONNACK, identifier collision)
    pub ambiguous: bool,
    pub is_probe: bool,
    /// C19: MQTT 5 forbids this request; it must never be accepted
    pub must_refuse: bool,
}

/// A message the broker sends to the client.
pub struct BMsg {
    pub btag: u32,
    pub qos: u8,
    pub id: Option<u16>,
    pub retain: bool,
    pub topic: String,
    pub payload: Vec<u8>,
    pub props: Vec<Prop>,
    /// broker-side state: 0 = awaiting PUBACK/PUBREC, 1 = PUBREL sent awaiting PUBCOMP, 2 = done
    pub state: u8,
    pub sent_on: Vec<usize>,
    pub deliveries: u32,
}

#[derive(Clone, Debug, PartialEq, Eq)]
pub struct Delivered {
    pub topic: String,
    pub payload: Vec<u8>,
    pub qos: u8,
    pub retain: bool,
    pub props: Vec<Prop>,
}

#[derive(Copy, Clone, Debug, PartialEq, Eq)]
pub enum Expect {
    Reject(u8),
    /// a failing reason code in a *duplicate* acknowledgement: surfacing it is optional
    MaybeReject(u8),
    Disconnected,
    Invalid,
    /// malformed or incomplete bytes followed by EOF: either outcome is right
    InvalidOrEof,
    /// a well-formed packet that violates the protocol state (second CONNACK): the client may
    /// ignore it or reject it as invalid - C08 leaves that open - but if it reports the invalid
    /// packet the handle is dead like after any other (C11)
    MaybeInvalid,
}

// ------------------------------------------------------------------ events

pub enum Event {
    /// bytes from the broker become readable on a connection
    Deliver {
        conn: usize,
        bytes: Vec<u8>,
        metas: Vec<(usize, RxMeta)>, // (length of the packet, meta)
    },
    /// the broker closes the connection (EOF after what is already readable)
    Close { conn: usize },
    /// a slow write becomes possible again (nothing to do but wake the client)
    Unblock { conn: usize },
    /// the stalled peer continues: held-back inbound bytes become readable
    ReleaseHeld { conn: usize },
}

#[derive(Default, Clone, Debug)]
pub struct Stats {
    pub faults: BTreeMap<&'static str, u64>,
    pub probes: BTreeMap<&'static str, u64>,
    pub ops: BTreeMap<&'static str, u64>,
    pub polls: u64,
    pub io_calls: u64,
    pub events: u64,
    pub conns: u64,
    pub states: BTreeSet<u64>,
    pub trigrams: BTreeSet<u64>,
}

pub struct World {
    pub tape: Tape,
    /// twin scenarios: the I/O schedule (chunking, stalls, cancellation) draws from its own
    /// tape so that the program tape is identical in both runs
    pub sched: Option<Tape>,
    pub cfg: RunCfg,
    pub seed: u64,
    pub events: BTreeMap<(u64, u64), Event>,
    pub ev_seq: u64,
    pub event_no: u64,
    pub conns: Vec<ConnState>,
    pub cur: usize,
    pub reqs: Vec<Req>,
    pub req_by_tag: BTreeMap<u32, usize>,
    pub next_tag: u32,
    pub issue_seq: u64,
    pub pubrec_seq: u64,
    pub bmsgs: Vec<BMsg>,
    pub next_btag: u32,
    pub next_broker_id: u16,
    pub delivered: Vec<Delivered>,
    pub violations: Vec<Violation>,
    pub stats: Stats,
    pub trace_on: bool,
    pub trace: Vec<String>,
    // session-level broker/ledger state
    pub epoch: u32,
    pub ever_success_connack: bool,
    pub broker_has_session: bool,
    pub expected_client_id: String,
    /// client-side model of pending inbound QoS 2 identifiers (for C04)
    pub client_qos2_pending: BTreeSet<u16>,
    /// Receive Maximum the client advertised in CONNECT
    pub client_receive_max: Option<u16>,
    /// a failing reason code was consumed: the op that consumed it must return Rejected(code)
    pub expect: Option<Expect>,
    pub disconnect_expected: Option<Packet>,
    pub server_keepalive_seen: bool,
    pub last_client_id_seen: u16,
    pub withheld: Vec<(usize, usize)>,
    pub withheld_comp: Vec<(usize, u16)>,
    pub client_qos2_ambiguous: bool,
    pub carry_over_acks: VecDeque<(u8, u16, Option<u8>)>,
    pub app_waiting_since: Option<u64>,
    /// identifiers can no longer identify requests (C07 fired) – ledger checks are suspended
    pub ids_ambiguous: bool,
    /// all prior handle expectations unknown until the next unambiguous CONNACK
    pub session_ambiguous: bool,
    /// only the clean-start flag of the next CONNECT is open (rejected CONNACK that reported no session)
    pub clean_start_ambiguous: bool,
    /// handle must be dead: any I/O call is a C11 violation
    pub must_be_dead: bool,
    pub dead_io_snapshot: u64,
    pub cut: bool,
    pub io_calls_this_poll: u64,
    pub spin_count: u64,
    pub last_kinds: [u8; 2],
    /// what the current operation has offered to the transport (request tags)
    pub offered_now: Vec<u32>,
    pub benign: bool,
    pub op_label: &'static str,
    pub sim_time_max: u64,
    /// twin runs: tags of cancelled requests that are known never to have been enqueued
    pub never_enqueued: Vec<u32>,
    /// simulated time at which the current operation was called
    pub op_start_t: u64,
    /// the application cancels the current operation at its next Pending
    pub cancel_once: bool,
    /// FragTwin(4): the next packet the client starts (not a CONNECT) is accepted up to this
    /// many bytes by its first write call, then the transport is dead
    pub die_after_accepting: Option<usize>,
    /// the broker answered the last CONNACK with Session Expiry Interval 0
    pub broker_session_expiry_zero: bool,
    /// Receive Maximum the prompt, conformant broker of the final reconnects grants
    pub final_small_rm: Option<u16>,
    /// Maximum Packet Size of the next CONNACK (ack-lost prefix)
    pub force_next_mps: Option<u32>,
    /// twin runs: the next operation is not cancelled (last attempt of a repeated disconnect)
    pub no_cancel: bool,
    pub qos0_cancelled: bool,
    pub burn_done: bool,
    pub twin_mode: bool,
    /// twin scripts: the execution left the comparable part of the script
    pub twin_incomparable: bool,
    /// this world is the second (cancelled / fragmented) execution of a twin scenario
    pub second_execution: bool,
    /// position of the program tape at which the (twin) script generation starts
    pub script_start_pos: usize,
    pub last_cancel_idle: bool,
    /// FragTwin(0): split points of the inbound stream (bit i set = a read ends after byte i)
    pub chunk_mask: Option<u64>,
    /// FaultEnum: inject this fault at the n-th I/O call of the armed operation
    pub inject: Option<(u64, u8)>,
    pub inject_armed: bool,
    pub io_calls_in_op: u64,
    pub results: Vec<String>,
    pub force_cancel: Option<u8>,
    pub hold_acks: bool,
    pub hold_pubcomp: bool,
    /// the broker withholds PUBREL after PUBREC (inbound QoS 2 saturation)
    pub hold_pubrel: bool,
    pub force_inbound_qos: Option<u8>,
    pub force_delay: Option<u64>,
    pub raw_after_connack: Option<Vec<u8>>,
    pub raw_pieces_after_connack: Option<Vec<Vec<u8>>>,
    pub raw_instead_of_connack: Option<Vec<u8>>,
    /// raw inbound bytes bypass the ledger: C04 expectations are not maintained
    pub raw_mode: bool,
    pub trace_hash: u64,
}

pub const IO_CALLS_PER_POLL_LIMIT: u64 = 10_000;

impl World {
    pub fn new(tape: Tape, cfg: RunCfg, seed: u64) -> Self {
        let expected_client_id = cfg.client_id.clone();
        Self {
            tape,
            sched: None,
            cfg,
            seed,
            events: BTreeMap::new(),
            ev_seq: 0,
            event_no: 0,
            conns: Vec::new(),
            cur: 0,
            reqs: Vec::new(),
            req_by_tag: BTreeMap::new(),
            next_tag: 1,
            issue_seq: 0,
            pubrec_seq: 0,
            bmsgs: Vec::new(),
            next_btag: 1,
            next_broker_id: 1,
            delivered: Vec::new(),
            violations: Vec::new(),
            stats: Stats::default(),
            trace_on: false,
            trace: Vec::new(),
            epoch: 0,
            ever_success_connack: false,
            broker_has_session: false,
            expected_client_id,
            client_qos2_pending: BTreeSet::new(),
            client_receive_max: None,
            expect: None,
            disconnect_expected: None,
            server_keepalive_seen: false,
            last_client_id_seen: 0,
            withheld: Vec::new(),
            withheld_comp: Vec::new(),
            client_qos2_ambiguous: false,
            carry_over_acks: VecDeque::new(),
            app_waiting_since: None,
            ids_ambiguous: false,
            session_ambiguous: false,
            clean_start_ambiguous: false,
            must_be_dead: false,
            dead_io_snapshot: 0,
            cut: false,
            io_calls_this_poll: 0,
            spin_count: 0,
            last_kinds: [0, 0],
            offered_now: Vec::new(),
            benign: false,
            op_label: "",
            sim_time_max: 0,
            never_enqueued: Vec::new(),
            op_start_t: 0,
            cancel_once: false,
            die_after_accepting: None,
            broker_session_expiry_zero: false,
            final_small_rm: None,
            force_next_mps: None,
            no_cancel: false,
            qos0_cancelled: false,
            burn_done: false,
            twin_mode: false,
            twin_incomparable: false,
            second_execution: false,
            script_start_pos: 0,
            last_cancel_idle: false,
            chunk_mask: None,
            inject: None,
            inject_armed: false,
            io_calls_in_op: 0,
            results: Vec::new(),
            force_cancel: None,
            hold_acks: false,
            hold_pubcomp: false,
            hold_pubrel: false,
            force_inbound_qos: None,
            force_delay: None,
            raw_after_connack: None,
            raw_pieces_after_connack: None,
            raw_instead_of_connack: None,
            raw_mode: false,
            trace_hash: 0x9E3779B97F4A7C15,
        }
    }

    /// schedule-level draws (I/O chunking, stalls, errors, cancellation)
    pub fn s_chance(&mut self, num: u32, den: u32) -> bool {
        match &mut self.sched {
            Some(t) => t.chance(num, den),
            None => self.tape.chance(num, den),
        }
    }
    pub fn s_choose(&mut self, n: u32) -> u32 {
        match &mut self.sched {
            Some(t) => t.choose(n),
            None => self.tape.choose(n),
        }
    }

    pub fn log(&mut self, f: impl FnOnce() -> String) {
        if self.trace_on {
            let s = f();
            let t = clock::now();
            self.trace.push(format!("[{:>4} t={}us] {}", self.event_no, t, s));
        }
    }

    /// Record an event kind for the interleaving measure (distinct trigrams).
    pub fn kind(&mut self, k: u8) {
        self.event_no += 1;
        self.stats.events += 1;
        let tri = ((self.last_kinds[0] as u64) << 16) | ((self.last_kinds[1] as u64) << 8) | k as u64;
        self.stats.trigrams.insert(tri);
        self.last_kinds = [self.last_kinds[1], k];
        self.trace_hash = crate::util::mix(self.trace_hash, k as u64);
    }

    pub fn fault(&mut self, name: &'static str) {
        *self.stats.faults.entry(name).or_insert(0) += 1;
    }
    pub fn probe(&mut self, name: &'static str) {
        *self.stats.probes.entry(name).or_insert(0) += 1;
    }

    /// Record a violation. Once a run has been cut (its byte stream or its timing is no longer
    /// interpretable after an earlier violation) later observations are follow-on effects and
    /// are not recorded.
    pub fn violate(&mut self, prop: &'static str, sig: String, detail: String) {
        if self.cut {
            return;
        }
        self.violate_force(prop, sig, detail);
    }

    pub fn violate_force(&mut self, prop: &'static str, sig: String, detail: String) {
        let sig = format!("{prop}/{sig}");
        self.log(|| format!("VIOLATION {sig}: {detail}"));
        if self.violations.len() < 32 && !self.violations.iter().any(|v| v.sig == sig) {
            self.violations.push(Violation {
                prop,
                sig,
                detail,
                at_event: self.event_no,
            });
        }
    }

    pub fn schedule(&mut self, delay_us: u64, ev: Event) {
        let t = clock::now() + delay_us;
        self.ev_seq += 1;
        self.events.insert((t, self.ev_seq), ev);
    }

    pub fn next_event_time(&self) -> Option<u64> {
        self.events.keys().next().map(|k| k.0)
    }

    /// Apply all events due at or before `now`.
    pub fn run_due_events(&mut self) {
        loop {
            let Some((&key, _)) = self.events.iter().next() else {
                break;
            };
            if key.0 > clock::now() {
                break;
            }
            let ev = self.events.remove(&key).unwrap();
            self.apply_event(ev);
        }
    }

    fn apply_event(&mut self, ev: Event) {
        match ev {
            Event::Deliver { conn, bytes, metas } => {
                // A conformant broker does not retransmit a QoS 2 PUBLISH once it has received the
                // PUBREC (it sends PUBREL from then on): drop a delayed duplicate.
                if let [(_, RxMeta::Publish { bmsg, dup: true })] = metas.as_slice() {
                    if self.bmsgs[*bmsg].state != 0 {
                        return;
                    }
                }
                let c = &mut self.conns[conn];
                if c.closed_by_client || c.closed_by_broker {
                    return;
                }
                let mut off = c.rx_total_enqueued;
                for (len, meta) in metas {
                    // malformed bytes are "received" as soon as the client has read the first of
                    // them: it may legitimately stop reading before the end
                    let eager = matches!(meta, RxMeta::Garbage | RxMeta::Partial);
                    let end = if eager { off + 1 } else { off + len };
                    off += len;
                    c.rx_items.push_back(RxItem { end, meta });
                }
                c.rx_total_enqueued += bytes.len();
                if c.rx_hold {
                    // the peer is stalled: everything queues up behind the cut packet
                    c.rx_held.extend(bytes.iter());
                    self.log(|| format!("broker->client c{} {} bytes held back behind the stalled packet: {}", conn, bytes.len(), crate::util::hex(&bytes)));
                    return;
                }
                let stall = !self.benign && bytes.len() >= 2 && self.cfg.p_peer_stall > 0 && { let p = self.cfg.p_peer_stall; self.s_chance(p, 1000) };
                if stall {
                    let k = 1 + self.s_choose(bytes.len() as u32 - 1) as usize;
                    let d = [Some(clock::US_PER_MS), Some(500 * clock::US_PER_MS), Some(2 * clock::US_PER_S), Some(6 * clock::US_PER_S), Some(40 * clock::US_PER_S), None][self.s_choose(6) as usize];
                    let c = &mut self.conns[conn];
                    c.rx_ready.extend(bytes[..k].iter());
                    c.rx_held.extend(bytes[k..].iter());
                    c.rx_hold = true;
                    if let Some(d) = d {
                        self.schedule(d, Event::ReleaseHeld { conn });
                    }
                    self.fault("peer_stalls_inside_packet");
                    self.kind(22);
                    self.log(|| format!("broker->client c{} {} bytes, the peer stalls after {} of them for {:?} us: {}", conn, bytes.len(), k, d, crate::util::hex(&bytes)));
                    return;
                }
                self.conns[conn].rx_ready.extend(bytes.iter());
                if self.conns[conn].rx_items.iter().any(|i| matches!(i.meta, RxMeta::PingResp)) && self.conns[conn].pingresp_available_t.is_none() {
                    // (readable from now on; not recorded when the peer stalls inside a packet)
                    self.conns[conn].pingresp_available_t = Some(clock::now());
                }
                self.kind(20);
                self.log(|| format!("broker->client c{} {} bytes: {}", conn, bytes.len(), crate::util::hex(&bytes)));
            }
            Event::ReleaseHeld { conn } => self.release_held(conn),
            Event::Close { conn } => {
                self.release_held(conn);
                let c = &mut self.conns[conn];
                if !c.closed_by_broker {
                    c.closed_by_broker = true;
                    c.eof = true;
                    self.kind(21);
                    self.log(|| format!("broker closes c{conn}"));
                }
            }
            Event::Unblock { conn } => {
                let _ = conn;
            }
        }
    }

    pub fn release_held(&mut self, conn: usize) {
        let c = &mut self.conns[conn];
        if c.rx_hold {
            c.rx_hold = false;
            let held = std::mem::take(&mut c.rx_held);
            c.rx_ready.extend(held);
            self.log(|| format!("the stalled peer of c{conn} continues"));
        }
    }

    // -------------------------------------------------------------- SimIo back end

    fn io_guard(&mut self, conn: usize, what: &'static str) {
        self.stats.io_calls += 1;
        self.io_calls_this_poll += 1;
        if self.must_be_dead && conn == self.cur {
            self.violate(
                "C11",
                format!("io-after-death/{what}/op={}", self.op_label),
                format!("{what} called on the transport after the handle was reported dead"),
            );
        }
    }

    /// FaultEnum: is the armed fault due at this I/O call?
    fn injected(&mut self) -> Option<u8> {
        if !self.inject_armed {
            return None;
        }
        let (idx, f) = self.inject?;
        self.io_calls_in_op += 1;
        if self.io_calls_in_op == idx + 1 {
            self.inject = None;
            self.fault(match f {
                0..=2 => "enum_io_error",
                3 => "enum_eof",
                4 => "enum_broker_disconnect",
                5 => "enum_malformed_packet",
                6 => "enum_cancel",
                7 => "enum_drop_handle",
                _ => "enum_forget_handle",
            });
            let op = self.op_label;
            self.log(|| format!("fault enumeration: fault kind {f} at I/O call {idx} of {op}"));
            return Some(f);
        }
        None
    }

    /// Apply an enumerated fault that is not tied to the outcome of the current call.
    fn apply_side_fault(&mut self, conn: usize, f: u8) {
        match f {
            3 => {
                self.conns[conn].rx_ready.clear();
                self.conns[conn].rx_items.clear();
                self.conns[conn].rx_consumed = self.conns[conn].rx_total_enqueued;
                self.conns[conn].eof = true;
                self.conns[conn].closed_by_broker = true;
            }
            4 => {
                let p = crate::codec::encode(&Packet::Disconnect { reason: Some(0x8B), props: None });
                let len = p.len();
                self.apply_event(Event::Deliver { conn, bytes: p, metas: vec![(len, RxMeta::Disconnect)] });
                self.apply_event(Event::Close { conn });
            }
            5 => {
                // a complete but undecodable packet / a length beyond the receive buffer / a
                // length field that never terminates
                let p: Vec<u8> = match self.io_calls_in_op % 3 {
                    0 => vec![0x00, 0x00],
                    1 => vec![0x30, 0xFF, 0xFF, 0x7F],
                    _ => vec![0xD0, 0x80, 0x80, 0x80, 0x80, 0x01],
                };
                let n = p.len();
                self.apply_event(Event::Deliver { conn, bytes: p, metas: vec![(n, RxMeta::Garbage)] });
                self.apply_event(Event::Close { conn });
            }
            _ => {}
        }
    }

    /// Avoidance guard for the open C12 finding (CONNECT needs room behind the retained packets):
    /// with the guards on, the generator does not fill the arena on purpose.
    pub fn guards_arena(&self) -> bool {
        self.cfg.guards
    }

    pub fn watchdog_tripped(&self) -> bool {
        self.io_calls_this_poll > IO_CALLS_PER_POLL_LIMIT
    }

    /// Decide the outcome of a `write` poll.
    pub fn io_write(&mut self, conn: usize, buf: &[u8]) -> core::task::Poll<Result<usize, embedded_io_async::ErrorKind>> {
        use core::task::Poll;
        self.io_guard(conn, "write");
        self.conns[conn].n_write += 1;
        if buf.is_empty() {
            return Poll::Ready(Ok(0));
        }
        if self.watchdog_tripped() {
            self.conns[conn].blocked = Blocked::WriteStall;
            return Poll::Pending;
        }
        self.note_offered(conn, buf);
        if let Some(f) = self.injected() {
            match f {
                0..=2 => {
                    let e = [embedded_io_async::ErrorKind::ConnectionReset, embedded_io_async::ErrorKind::TimedOut, embedded_io_async::ErrorKind::Other][f as usize];
                    self.conns[conn].io_error = Some(e);
                    return Poll::Ready(Err(e));
                }
                3..=5 => self.apply_side_fault(conn, f),
                _ => {
                    self.force_cancel = Some(f);
                    self.conns[conn].blocked = Blocked::WriteStall;
                    return Poll::Pending;
                }
            }
        }
        // C01: while the stream is inside a packet, the next offer must continue that packet.
        if let Some(rem) = self.conns[conn].pending_offer.clone() {
            let c = &self.conns[conn];
            // (after a cancelled disconnect() the client has no record of the half-written
            // DISCONNECT: whatever another operation writes now is foreign to it, also when its
            // first bytes happen to equal the missing ones)
            let foreign = c.disconnect_cancelled && c.parsed != c.wire.len() && c.wire[c.parsed] >> 4 == 14 && self.op_label != "disconnect";
            if c.parsed != c.wire.len() && (foreign || !(rem.starts_with(buf) || buf.starts_with(&rem))) {
                let inside = crate::codec::type_name_of(c.wire[c.parsed] >> 4);
                let first = c.wire[c.parsed];
                let newp = crate::codec::type_name_of(buf[0] >> 4);
                let sig = if c.disconnect_cancelled && inside == "DISCONNECT" {
                    "packet-inside-packet/interrupted=DISCONNECT/after-cancelled-disconnect".to_string()
                } else if self.op_label == "disconnect" && newp == "DISCONNECT" {
                    "packet-inside-packet/op=disconnect,starts=DISCONNECT".to_string()
                } else {
                    format!("packet-inside-packet/op={},interrupted={},starts={}", self.op_label, inside, newp)
                };
                self.violate(
                    "C01",
                    sig,
                    format!(
                        "transport is {} bytes into a {} packet; client now offers {} instead of the remainder {}",
                        c.wire.len() - c.parsed,
                        inside,
                        crate::util::hex(buf),
                        crate::util::hex(&rem)
                    ),
                );
                // C02/C03: the interrupted packet is a step of a QoS 1/2 exchange that does not
                // reach the broker as that step ("same identifier", "byte-identical content")
                let step = match (first >> 4, (first >> 1) & 3) {
                    (3, 1) => Some(("C02", "publish-not-intact-on-the-wire")),
                    (3, 2) => Some(("C03", "publish-not-intact-on-the-wire")),
                    (6, _) => Some(("C03", "pubrel-not-intact-on-the-wire")),
                    _ => None,
                };
                if let Some((prop, rule)) = step {
                    self.violate(prop, format!("{rule}/interrupted-by={newp}"), format!("the bytes of a {newp} packet are written into the middle of the {inside} packet under way"));
                }
                if inside != "DISCONNECT" && inside != "CONNECT" {
                    // C09: the broker decodes the interrupted packet with foreign bytes in its
                    // middle, i.e. not what the application asked to send
                    self.violate(
                        "C09",
                        format!("undecodable/interrupted-by-another-packet/{inside}"),
                        format!("the {inside} packet under way reaches the broker with the bytes of a {newp} packet in its middle"),
                    );
                }
                // the byte stream is unusable from here on: verdicts up to this point stand
                self.conns[conn].wire_broken = true;
                self.cut = true;
            }
        }
        if let Some(e) = self.conns[conn].io_error {
            return Poll::Ready(Err(e));
        }
        if let Some(k) = self.die_after_accepting {
            let c = &self.conns[conn];
            if c.parsed == c.wire.len() && !buf.is_empty() && buf[0] >> 4 != 1 {
                self.die_after_accepting = None;
                let n = k.min(buf.len());
                self.fault("transport_dies_after_partial_acceptance");
                self.kind(14);
                self.log(|| format!("write({}) -> Ok({}) {}  [the transport is dead after this call]", buf.len(), n, crate::util::hex(&buf[..n])));
                self.conns[conn].bytes_moved += n as u64;
                self.accept_bytes(conn, &buf[..n]);
                let c = &mut self.conns[conn];
                c.pending_offer = if c.parsed != c.wire.len() { Some(buf[n..].to_vec()) } else { None };
                c.io_error = Some(embedded_io_async::ErrorKind::ConnectionReset);
                return Poll::Ready(Ok(n));
            }
        }
        if clock::now() < self.conns[conn].write_blocked_until {
            self.conns[conn].blocked = Blocked::WriteSlow;
            return Poll::Pending;
        }
        // (the call that follows a slow period goes through: one slow period per write)
        let just_unblocked = std::mem::replace(&mut self.conns[conn].write_blocked_until, 0) != 0;
        if !just_unblocked && !self.benign && !self.cfg.zero_time_io && self.cfg.p_slow_write > 0 && { let p = self.cfg.p_slow_write; self.s_chance(p, 1000) } {
            // (twin runs stay below the round-trip bound: a PINGREQ write slower than 5 s ends the
            // connection at once - open finding - and the two runs would no longer be comparable)
            let n = if self.twin_mode { 3 } else { 5 };
            let d = [clock::US_PER_MS, 300 * clock::US_PER_MS, 700 * clock::US_PER_MS, 2 * clock::US_PER_S, 6 * clock::US_PER_S][self.s_choose(n) as usize];
            self.conns[conn].write_blocked_until = clock::now() + d;
            self.conns[conn].last_slow_write_until = clock::now() + d;
            self.conns[conn].blocked = Blocked::WriteSlow;
            self.schedule(d, Event::Unblock { conn });
            self.fault("write_slow");
            if self.conns[conn].parsed != self.conns[conn].wire.len() {
                self.probe("slow_write_inside_packet");
            }
            self.kind(12);
            self.log(|| format!("write({}) -> Pending for {} us (slow link)", buf.len(), d));
            return Poll::Pending;
        }
        if !self.benign && !self.cfg.zero_time_io {
            if self.conns[conn].stall_run < 3 && { let p = self.cfg.p_stall; self.s_chance(p, 1000) } {
                self.conns[conn].stall_run += 1;
                self.conns[conn].blocked = Blocked::WriteStall;
                self.fault("write_stall");
                self.kind(1);
                self.log(|| format!("write({}) -> Pending", buf.len()));
                return Poll::Pending;
            }
            self.conns[conn].stall_run = 0;
            if { let p = self.cfg.p_io_err; self.s_chance(p, 1000) } {
                let e = self.pick_err();
                self.conns[conn].io_error = Some(e);
                self.fault("write_error");
                self.kind(2);
                self.log(|| format!("write({}) -> Err({:?})", buf.len(), e));
                return Poll::Ready(Err(e));
            }
        }
        if !self.benign && !self.cfg.zero_time_io && self.cfg.p_write_zero > 0 && { let p = self.cfg.p_write_zero; self.s_chance(p, 1000) } {
            self.fault("write_zero");
            self.kind(11);
            self.log(|| format!("write({}) -> Ok(0)  [transport violates the write contract]", buf.len()));
            return Poll::Ready(Ok(0));
        }
        let mut n = buf.len();
        if !self.benign && buf.len() > 1 && { let p = self.cfg.p_partial_write; self.s_chance(p, 1000) } {
            // biased towards 1, len-1
            n = match self.s_choose(4) {
                0 => 1,
                1 => buf.len() - 1,
                _ => 1 + self.s_choose(buf.len() as u32 - 1) as usize,
            };
            self.fault("partial_write");
        }
        self.kind(3);
        self.log(|| format!("write({}) -> Ok({}) {}", buf.len(), n, crate::util::hex(&buf[..n])));
        self.conns[conn].bytes_moved += n as u64;
        self.accept_bytes(conn, &buf[..n]);
        let c = &mut self.conns[conn];
        c.pending_offer = if c.parsed != c.wire.len() { Some(buf[n..].to_vec()) } else { None };
        Poll::Ready(Ok(n))
    }

    pub fn io_flush(&mut self, conn: usize) -> core::task::Poll<Result<(), embedded_io_async::ErrorKind>> {
        use core::task::Poll;
        self.io_guard(conn, "flush");
        self.conns[conn].n_flush += 1;
        if self.watchdog_tripped() {
            self.conns[conn].blocked = Blocked::FlushStall;
            return Poll::Pending;
        }
        if let Some(f) = self.injected() {
            match f {
                0..=2 => {
                    let e = [embedded_io_async::ErrorKind::ConnectionReset, embedded_io_async::ErrorKind::TimedOut, embedded_io_async::ErrorKind::Other][f as usize];
                    self.conns[conn].io_error = Some(e);
                    return Poll::Ready(Err(e));
                }
                3..=5 => self.apply_side_fault(conn, f),
                _ => {
                    self.force_cancel = Some(f);
                    self.conns[conn].blocked = Blocked::FlushStall;
                    return Poll::Pending;
                }
            }
        }
        if let Some(e) = self.conns[conn].io_error {
            return Poll::Ready(Err(e));
        }
        if !self.benign && self.cfg.p_ping_flush_cancel > 0 && self.conns[conn].stall_run == 0 {
            let c = &self.conns[conn];
            let ping_waits_for_flush = c.packets[c.unflushed_from.min(c.packets.len())..].iter().any(|p| matches!(p.pkt, Packet::PingReq));
            if ping_waits_for_flush && { let p = self.cfg.p_ping_flush_cancel; self.s_chance(p, 1000) } {
                self.conns[conn].stall_run = 1;
                self.conns[conn].blocked = Blocked::FlushStall;
                self.cancel_once = true;
                self.fault("cancel_at_pending_pingreq_flush");
                self.kind(13);
                self.log(|| "flush -> Pending (PINGREQ written, not yet flushed); the application drops the operation here".to_string());
                return Poll::Pending;
            }
        }
        if !self.benign && !self.cfg.zero_time_io {
            if self.conns[conn].stall_run < 3 && { let p = self.cfg.p_stall; self.s_chance(p, 1000) } {
                self.conns[conn].stall_run += 1;
                self.conns[conn].blocked = Blocked::FlushStall;
                self.fault("flush_stall");
                self.kind(4);
                self.log(|| "flush -> Pending".to_string());
                return Poll::Pending;
            }
            self.conns[conn].stall_run = 0;
            if { let p = self.cfg.p_io_err; self.s_chance(p, 1000) } {
                let e = self.pick_err();
                self.conns[conn].io_error = Some(e);
                self.fault("flush_error");
                self.kind(5);
                self.log(|| format!("flush -> Err({:?})", e));
                return Poll::Ready(Err(e));
            }
        }
        self.kind(6);
        self.log(|| "flush -> Ok".to_string());
        self.conns[conn].bytes_moved += 1; // a completed flush is wire progress too
        // disconnect() flushes the transport without advancing the client's own per-packet
        // flush bookkeeping: such acknowledgements may legitimately be re-sent after a resume
        if self.op_label != "disconnect" {
            self.conns[conn].unflushed_acks.clear();
        }
        self.on_flush(conn);
        Poll::Ready(Ok(()))
    }

    pub fn io_read(&mut self, conn: usize, buf: &mut [u8]) -> core::task::Poll<Result<usize, embedded_io_async::ErrorKind>> {
        use core::task::Poll;
        self.io_guard(conn, "read");
        self.conns[conn].n_read += 1;
        if buf.is_empty() {
            return Poll::Ready(Ok(0));
        }
        if self.watchdog_tripped() {
            self.conns[conn].blocked = Blocked::ReadStall;
            return Poll::Pending;
        }
        if let Some(f) = self.injected() {
            match f {
                0..=2 => {
                    let e = [embedded_io_async::ErrorKind::ConnectionReset, embedded_io_async::ErrorKind::TimedOut, embedded_io_async::ErrorKind::Other][f as usize];
                    self.conns[conn].io_error = Some(e);
                    return Poll::Ready(Err(e));
                }
                3..=5 => self.apply_side_fault(conn, f),
                _ => {
                    self.force_cancel = Some(f);
                    self.conns[conn].blocked = Blocked::ReadStall;
                    return Poll::Pending;
                }
            }
        }
        if let Some(e) = self.conns[conn].io_error {
            return Poll::Ready(Err(e));
        }
        self.run_due_events();
        let avail = self.conns[conn].rx_ready.len();
        if avail == 0 {
            if self.conns[conn].eof {
                self.kind(7);
                self.fault("eof");
                self.conns[conn].eof_read = true;
                self.log(|| "read -> Ok(0) EOF".to_string());
                return Poll::Ready(Ok(0));
            }
            self.conns[conn].blocked = Blocked::ReadNoData;
            return Poll::Pending;
        }
        if !self.benign && !self.cfg.zero_time_io {
            if self.conns[conn].stall_run < 3 && { let p = self.cfg.p_stall; self.s_chance(p, 1000) } {
                self.conns[conn].stall_run += 1;
                self.conns[conn].blocked = Blocked::ReadStall;
                self.fault("read_stall");
                self.kind(8);
                self.log(|| "read -> Pending (stall)".to_string());
                return Poll::Pending;
            }
            self.conns[conn].stall_run = 0;
            if { let p = self.cfg.p_io_err; self.s_chance(p, 1000) } {
                let e = self.pick_err();
                self.conns[conn].io_error = Some(e);
                self.fault("read_error");
                self.kind(9);
                self.log(|| format!("read -> Err({:?})", e));
                return Poll::Ready(Err(e));
            }
        }
        let max = avail.min(buf.len());
        let mut n = max;
        if let Some(mask) = self.chunk_mask {
            // enumerated chunking: a read never crosses a split point
            let pos = self.conns[conn].rx_consumed;
            for k in 0..max {
                if pos + k < 63 && (mask >> (pos + k)) & 1 == 1 {
                    n = k + 1;
                    break;
                }
            }
        }
        if !self.benign && max > 1 && { let p = self.cfg.p_frag_read; self.s_chance(p, 1000) } {
            n = match self.s_choose(3) {
                0 => 1,
                _ => 1 + self.s_choose(max as u32 - 1) as usize,
            };
            self.fault("fragmented_read");
        }
        for slot in buf.iter_mut().take(n) {
            *slot = self.conns[conn].rx_ready.pop_front().unwrap();
        }
        self.kind(10);
        self.log(|| format!("read({}) -> Ok({}) {}", buf.len(), n, crate::util::hex(&buf[..n])));
        self.conns[conn].rx_consumed += n;
        self.conns[conn].bytes_moved += n as u64;
        self.on_consumed(conn);
        Poll::Ready(Ok(n))
    }

    fn pick_err(&mut self) -> embedded_io_async::ErrorKind {
        use embedded_io_async::ErrorKind as K;
        match self.s_choose(6) {
            0 => K::ConnectionReset,
            1 => K::TimedOut,
            2 => K::Interrupted,
            3 => K::BrokenPipe,
            4 => K::ConnectionAborted,
            _ => K::Other,
        }
    }

    /// Inject a transport error that all later I/O calls on the connection will report.
    pub fn break_transport(&mut self, conn: usize, e: embedded_io_async::ErrorKind) {
        self.conns[conn].io_error = Some(e);
    }

    // -------------------------------------------------------------- wire monitor (client -> broker)

    fn note_offered(&mut self, conn: usize, buf: &[u8]) {
        // If the stream is at a packet boundary, the offered buffer starts a new packet; minimq
        // always offers the whole remainder, so a complete PUBLISH/SUBSCRIBE/UNSUBSCRIBE can be
        // attributed to its request even when the transport answers Pending or an error.
        let c = &self.conns[conn];
        if c.wire_broken || c.parsed != c.wire.len() {
            return;
        }
        if self.conns[conn].first_offer_t.is_none() {
            self.conns[conn].first_offer_t = Some(clock::now());
        }
        if let Ok(total) = codec::frame(buf) {
            if total == buf.len() {
                if let Some(tag) = tag_of_raw(buf) {
                    if !self.offered_now.contains(&tag) {
                        self.offered_now.push(tag);
                    }
                    if let Some(&ri) = self.req_by_tag.get(&tag) {
                        let r = &mut self.reqs[ri];
                        if r.accept == Accept::Maybe {
                            r.accept = Accept::Accepted;
                        }
                        if r.first_tx.is_none() {
                            r.first_tx = Some(buf.to_vec());
                        }
                    }
                }
            }
        }
    }

    fn accept_bytes(&mut self, conn: usize, bytes: &[u8]) {
        let c = &mut self.conns[conn];
        if c.saw_disconnect && !bytes.is_empty() {
            let ctx = if c.disconnect_cancelled { "after-cancelled-disconnect".to_string() } else { format!("op={}", self.op_label) };
            self.violate(
                "C01",
                format!("bytes-after-disconnect/{ctx}"),
                format!("{} bytes written after DISCONNECT", bytes.len()),
            );
        }
        let c = &mut self.conns[conn];
        c.wire.extend_from_slice(bytes);
        if c.wire_broken {
            return;
        }
        loop {
            let c = &self.conns[conn];
            let rest = &c.wire[c.parsed..];
            if rest.is_empty() {
                break;
            }
            let total = match codec::frame(rest) {
                Ok(t) => t,
                Err(DecErr::Incomplete) => break,
                Err(e) => {
                    let first = rest[0];
                    self.conns[conn].wire_broken = true;
                    self.violate(
                        "C01",
                        format!("bad-framing/first={:#04x}/op={}", first, self.op_label),
                        format!("outbound stream not framed: {:?}", e),
                    );
                    self.cut = true;
                    break;
                }
            };
            if rest.len() < total {
                break;
            }
            let start = c.parsed;
            let raw = rest[..total].to_vec();
            self.conns[conn].parsed += total;
            self.on_client_packet_raw(conn, start, raw);
            if self.conns[conn].wire_broken {
                break;
            }
        }
    }

    fn on_client_packet_raw(&mut self, conn: usize, start: usize, mut raw: Vec<u8>) {
        let pkt = match codec::decode(&raw, Dir::ClientToServer) {
            Ok(p) => p,
            Err(DecErr::BadFlags { typ, flags }) if matches!(typ, 8 | 10) => {
                let on = if self.conns[conn].session_present { "resumed" } else { "fresh" };
                self.violate(
                    "C01",
                    format!(
                        "illegal-flags/type={},flags={:#06b},on={}",
                        codec::type_name_of(typ),
                        flags,
                        on
                    ),
                    format!("packet {} has reserved flag bits set", crate::util::hex(&raw)),
                );
                // repair and keep the ledger in sync
                raw[0] = (raw[0] & 0xF0) | 0x02;
                match codec::decode(&raw, Dir::ClientToServer) {
                    Ok(p) => p,
                    Err(e) => {
                        self.violate(
                            "C01",
                            format!("malformed/{}", err_class(&e)),
                            format!("{:?} in {}", e, crate::util::hex(&raw)),
                        );
                        self.conns[conn].wire_broken = true;
                        self.cut = true;
                        return;
                    }
                }
            }
            Err(e) => {
                self.violate(
                    "C01",
                    format!(
                        "malformed/type={}/{}/op={}",
                        codec::type_name_of(raw[0] >> 4),
                        err_class(&e),
                        self.op_label
                    ),
                    format!("{:?} in {}", e, crate::util::hex(&raw)),
                );
                // what cannot be decoded is certainly not what the application asked to send
                self.violate(
                    "C09",
                    format!("undecodable/type={}/{}", codec::type_name_of(raw[0] >> 4), err_class(&e)),
                    format!("the reference decoder rejects the client's packet: {:?} in {}", e, crate::util::hex(&raw)),
                );
                if raw[0] >> 4 == 1 && conn > 0 {
                    // a reconnect whose CONNECT no conformant broker accepts, whatever the transport does
                    self.violate(
                        "C12",
                        format!("reconnect-failed/connect-refused-by-any-conformant-broker/{}", err_class(&e)),
                        format!("the CONNECT of a reconnect is not a legal packet: {:?} in {}", e, crate::util::hex(&raw)),
                    );
                }
                if matches!(e, DecErr::ZeroPacketId) && matches!(raw[0] >> 4, 3 | 8 | 10) {
                    self.violate(
                        "C07",
                        format!("zero-identifier/type={}", codec::type_name_of(raw[0] >> 4)),
                        format!("a request was given the reserved packet identifier 0: {}", crate::util::hex(&raw)),
                    );
                }
                self.conns[conn].wire_broken = true;
                self.cut = true;
                return;
            }
        };
        let first = self.conns[conn].packets.is_empty();
        let is_connect = matches!(pkt, Packet::Connect { .. });
        if first != is_connect {
            self.violate(
                "C01",
                format!("connect-position/first={first},type={}", pkt.type_name()),
                "CONNECT must be exactly the first packet of a transport".into(),
            );
        }
        let tag = tag_of_packet(&pkt);
        let len = raw.len();
        let idx = self.conns[conn].packets.len();
        let t_first_offer = self.conns[conn].first_offer_t.take().unwrap_or_else(clock::now);
        self.conns[conn].packets.push(WirePacket {
            start,
            len,
            pkt: pkt.clone(),
            t_last_byte: clock::now(),
            t_first_offer,
            t_flushed: None,
            tag,
        });
        self.kind(30 + (raw[0] >> 4));
        self.log(|| format!("client->broker c{} #{} {:?}", conn, idx, pkt));
        crate::broker::on_client_packet(self, conn, idx, &raw);
    }

    fn on_flush(&mut self, conn: usize) {
        let now = clock::now();
        let c = &mut self.conns[conn];
        // a flush completes every packet whose last byte was already accepted
        let mut completed = Vec::new();
        while c.unflushed_from < c.packets.len() {
            let i = c.unflushed_from;
            c.packets[i].t_flushed = Some(now);
            completed.push(i);
            c.unflushed_from += 1;
        }
        for i in completed {
            crate::broker::on_packet_complete(self, conn, i, now);
        }
    }

    /// The client's reads advanced: hand every fully consumed broker packet to the ledger.
    fn on_consumed(&mut self, conn: usize) {
        loop {
            let c = &mut self.conns[conn];
            let Some(front) = c.rx_items.front() else {
                break;
            };
            if front.end > c.rx_consumed {
                break;
            }
            let item = c.rx_items.pop_front().unwrap();
            crate::broker::on_client_consumed(self, conn, item.meta);
        }
    }
}

pub fn err_class(e: &DecErr) -> String {
    match e {
        DecErr::Incomplete => "incomplete".into(),
        DecErr::BadVarint => "bad-varint".into(),
        DecErr::ReservedType(t) => format!("reserved-type-{t}"),
        DecErr::WrongDirection(t) => format!("wrong-direction-{}", codec::type_name_of(*t)),
        DecErr::BadFlags { typ, flags } => format!("bad-flags-{}-{:#06b}", codec::type_name_of(*typ), flags),
        DecErr::BadQos => "qos3".into(),
        DecErr::Truncated(w) => format!("truncated-{}", w.replace(' ', "-")),
        DecErr::Trailing(_) => "trailing".into(),
        DecErr::BadUtf8(w) => format!("bad-utf8-{}", w.replace(' ', "-")),
        DecErr::ZeroPacketId => "zero-packet-id".into(),
        DecErr::Property(_) => "property".into(),
        DecErr::Other(s) => format!("other-{}", s.split(' ').next().unwrap_or("")),
    }
}

/// Request tag carried in a topic / filter: "<letter><digits>[/padding]".
pub fn tag_of_str(s: &str) -> Option<u32> {
    let b = s.as_bytes();
    if b.len() < 2 || !matches!(b[0], b't' | b'f' | b'u') {
        return None;
    }
    let digits: String = s[1..].chars().take_while(|c| c.is_ascii_digit()).collect();
    if digits.is_empty() {
        return None;
    }
    digits.parse().ok()
}

pub fn tag_of_packet(p: &Packet) -> Option<u32> {
    match p {
        Packet::Publish { topic, .. } => tag_of_str(topic),
        Packet::Subscribe { filters, .. } => filters.first().and_then(|f| tag_of_str(&f.filter)),
        Packet::Unsubscribe { filters, .. } => filters.first().and_then(|f| tag_of_str(f)),
        _ => None,
    }
}

/// Tag of a raw, complete client packet (lenient about the flag nibble).
fn tag_of_raw(buf: &[u8]) -> Option<u32> {
    let typ = buf[0] >> 4;
    if !matches!(typ, 3 | 8 | 10) {
        return None;
    }
    let mut b = buf.to_vec();
    if typ != 3 {
        b[0] = (b[0] & 0xF0) | 2;
    }
    codec::decode(&b, Dir::ClientToServer).ok().and_then(|p| tag_of_packet(&p))
}
