//! The simulated transport handed to `Session::connect`. Carries only an index; all state lives
//! in the thread-local `World`. Futures are cancel-safe: bytes move only in the poll that returns
//! `Ready`; `write` never returns `Ok(0)` for a non-empty buffer; `read` returns `Ok(0)` only at EOF.

use crate::world::with;
use core::future::poll_fn;
use embedded_io_async::{ErrorKind, ErrorType, Read, Write};

pub struct SimIo {
    pub conn: usize,
}

impl ErrorType for SimIo {
    type Error = ErrorKind;
}

impl Read for SimIo {
    async fn read(&mut self, buf: &mut [u8]) -> Result<usize, ErrorKind> {
        let conn = self.conn;
        poll_fn(|_| with(|w| w.io_read(conn, buf))).await
    }
}

impl Write for SimIo {
    async fn write(&mut self, buf: &[u8]) -> Result<usize, ErrorKind> {
        let conn = self.conn;
        poll_fn(|_| with(|w| w.io_write(conn, buf))).await
    }
    async fn flush(&mut self) -> Result<(), ErrorKind> {
        let conn = self.conn;
        poll_fn(|_| with(|w| w.io_flush(conn))).await
    }
}
