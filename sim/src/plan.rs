//! Which scenarios decide which property, how many runs per tier, and what counts as non-trivial.

use crate::world::Profile;
use crate::Scenario;

pub struct PlanItem {
    pub scn: Scenario,
    pub runs: u64,
    /// `extra` = run index (enumerated sub-space) instead of 0
    pub enumerate: bool,
    /// `extra` = a pseudo-random index below this bound (sampling of an enumerated space)
    pub sample_space: Option<u64>,
}

pub struct Plan {
    pub items: Vec<PlanItem>,
    pub level: &'static str,
    pub rule: &'static str,
    pub nontrivial: &'static [&'static str],
    pub exhaustive: bool,
    pub assumptions: Vec<&'static str>,
}

fn prog(p: Profile, runs: u64) -> PlanItem {
    PlanItem { scn: Scenario::Program(p), runs, enumerate: false, sample_space: None }
}
fn scn(s: Scenario, runs: u64) -> PlanItem {
    PlanItem { scn: s, runs, enumerate: false, sample_space: None }
}
fn enumerated(s: Scenario, runs: u64) -> PlanItem {
    PlanItem { scn: s, runs, enumerate: true, sample_space: None }
}

const COMMON_ASSUMPTIONS: [&str; 4] = [
    "the reference MQTT 5 codec and broker model in /verif/sim (trusted, ~2000 lines) are right",
    "the transport obeys the embedded-io-async contract (no Ok(0) writes, cancel-safe futures, reliable ordered byte stream per connection)",
    "the embassy time base is monotonic; 1 tick = 1 us",
    "seeded sampling, not proof: a clean batch is evidence only for the explored runs",
];

pub fn plan_for(prop: &str, tier: &str) -> Option<Plan> {
    let q = tier == "quick";
    // thorough = the same mix, many more runs
    let k = |quick: u64| if q { quick * 8 } else { quick * 240 };
    use Profile::*;
    let mut exhaustive = false;
    let (items, level, rule, nontrivial): (Vec<PlanItem>, &'static str, &'static str, &'static [&'static str]) = match prop {
        "C01" => (
            vec![prog(General, k(40_000)), prog(Sessions, k(20_000)), prog(Inbound, k(20_000)), prog(Limits, k(10_000)), scn(Scenario::Bytes(1), k(6_000))],
            "exploration",
            "random programs over all operations x partial writes (down to 1 byte) x stalls x cancellation at any Pending x transport errors x fresh/resumed reconnects; every byte accepted by write() is parsed per transport by the strict reference decoder, and every offer made while the stream is inside a packet must continue that packet; Bytes(1) adds hostile inbound traffic (mutated server packets, zero packet identifiers) whose answers must still be well-formed. non-trivial = a partial write or a cancellation actually happened in the run; distinct = event-kind trace hash",
            &["partial_write", "cancel_at_stall", "cancel_at_read_or_timer", "inbound_zero_packet_id"],
        ),
        "C02" => (
            vec![prog(Qos1, k(50_000)), prog(General, k(20_000)), prog(Sessions, k(15_000)), prog(Aging, k(500)), enumerated(Scenario::FaultEnum(1), 241_920)],
            "exploration",
            "QoS 1 heavy programs with connection loss at random I/O calls (errors, EOF, drop, forget, cancelled connects), 1..10 resumed reconnects, withheld/reordered/early acks; ledger oracle per message: same id, byte-identical except DUP, DUP set after an earlier complete transmission, once per connection, none after PUBACK, acceptance order. non-trivial = at least one retransmission on a later connection was observed",
            &["retransmission_seen"],
        ),
        "C03" => (
            vec![prog(Qos2, k(50_000)), prog(General, k(20_000)), prog(Quota, k(10_000)), prog(Aging, k(500)), enumerated(Scenario::FaultEnum(1), 241_920)],
            "exploration",
            "1..8 concurrent QoS 2 exchanges, all PUBREC/PUBCOMP orders, failure codes, crashes between the four steps, repeated resumes; per-exchange state machine oracle incl. PUBREL replay order = PUBREC arrival order. non-trivial = a PUBREL was replayed on a later connection or a PUBLISH retransmitted",
            &["pubrel_replayed", "retransmission_seen"],
        ),
        "C04" => (
            vec![prog(Inbound, k(60_000)), prog(General, k(20_000)), prog(Limits, k(10_000))],
            "exploration",
            "broker publishes at QoS 0/1/2 within the client's Receive Maximum/Maximum Packet Size with random legal property sets and payloads up to the receive buffer, DUP retransmissions, duplicate/unknown PUBREL, across resumed and fresh reconnects, interleaved with outbound load; oracle: deliveries equal what was sent, in order; acks in arrival order with the right reason. non-trivial = a DUP/duplicate inbound packet was consumed or an inbound message filled the receive buffer",
            &["inbound_dup_consumed", "inbound_qos2_duplicate_suppressed", "inbound_fills_rx_buffer", "pubrel_for_unknown_id"],
        ),
        "C05" => (
            vec![prog(Sessions, k(50_000)), prog(General, k(20_000)), prog(Qos1, k(10_000)), prog(Qos2, k(10_000)), enumerated(Scenario::FaultEnum(1), 241_920)],
            "exploration",
            "up to 12 connections with arbitrary session-present answers, rejected/garbled/cancelled handshakes in between and arbitrary in-flight state at each loss; oracle: clean-start and client id of every CONNECT, connect_event, nothing stale after a fresh session, everything unacknowledged replayed once before any new identifier-bearing packet, old handles invalidated. non-trivial = a session was resumed with requests in flight or a fresh session replaced one",
            &["resumed_with_inflight", "fresh_session"],
        ),
        "C06" => (
            vec![prog(Quota, k(60_000)), prog(Qos2, k(15_000)), prog(General, k(15_000))],
            "exploration",
            "Receive Maximum 1,2,3,7,8,9,65535 changing across connections, QoS 1/2 mixes, withheld and failing acks, cancelled publishes, resumed reconnects; counting invariant at every outbound QoS>0 PUBLISH. non-trivial = the window was exactly full at least once",
            &["quota_window_full"],
        ),
        "C07" => (
            vec![prog(IdWrap, k(70_000)), prog(General, k(20_000))],
            "exploration",
            "long-lived in-flight operations (acks withheld) while the identifier counter is moved almost a full 16-bit cycle through the verif hook (which calls the real allocator), or starts next to the wrap; oracle: every new identifier is non-zero and unused by any unresolved operation. non-trivial = the counter wrapped with operations in flight",
            &["identifier_counter_wrapped_with_ops_in_flight", "identifier_counter_advanced"],
        ),
        "C09" => (
            vec![prog(General, k(35_000)), prog(Limits, k(20_000)), prog(Sessions, k(15_000)), prog(Aging, k(500))],
            "exploration",
            "swarm over will/auth/keep-alive/expiry/client-id configurations, publish property sets incl. correlation data, subscription options, payload sizes across remaining-length boundaries, over many connections; every outbound packet (first transmission and replay, every CONNECT of every history) is decoded by the reference codec and compared with the request. every run is non-trivial (>= 1 CONNECT compared)",
            &[],
        ),
        "C10" => (
            vec![prog(Timing, k(60_000)), prog(General, k(8_000))],
            "exploration",
            "virtual clock, keep-alive from {0,1,2,3,4,5,9,10,11,30,65535,1..70} with/without Server Keep Alive, application waits in poll() continuously, zero-time writes; traffic and PINGRESP at random delays up to 200 s or never; oracle on completion timestamps; General adds writes that take simulated time (slow link: a write pending for 1 ms .. 6 s) under ordinary workloads. non-trivial = at least one PINGREQ was sent or a keep-alive timeout occurred",
            &["pingreq", "keepalive_timeout_disconnect"],
        ),
        "C11" => (
            vec![prog(General, k(40_000)), prog(Sessions, k(20_000)), prog(Inbound, k(20_000)), enumerated(Scenario::FaultEnum(0), if q { 241_920 } else { 2_419_200 })],
            "fault_enumeration",
            "random programs in which every fatal result is followed by a random sequence of further operations on the same handle, plus the enumeration FaultEnum(0): for prepared pre-states x operation, the fault-free run is recorded and then every fault kind is injected at every I/O call index. oracle: is_connected/can_publish false, every operation Disconnected (disconnect Ok), I/O counters frozen. non-trivial = a dead-handle probe ran",
            &["dead_handle_probe"],
        ),
        "C12" => (
            vec![prog(General, k(30_000)), prog(Sessions, k(30_000)), prog(Limits, k(10_000)), enumerated(Scenario::FaultEnum(1), if q { 241_920 } else { 2_419_200 })],
            "fault_enumeration",
            "every explored history ends with connect() over a healthy transport to a conformant broker; FaultEnum(1) cuts prepared scenarios at every I/O call (error, cancel, drop, forget, inside the handshake) first. oracle: connect Ok, first packet a complete CONNECT, QoS 1 probe completes, inbound probe delivered. non-trivial = the final reconnect was attempted after a fault",
            &["final_reconnect_ok"],
        ),
        "C13" => (
            vec![scn(Scenario::CancelTwin, k(60_000))],
            "exploration",
            "twin runs: a base script and the same script with cancellations (0..5 per operation, after any number of accepted bytes) followed by poll(); outbound packet sequence and deliveries must be equal after removing requests that were not accepted. non-trivial = the twin really cancelled something after bytes had moved",
            &["twin_cancelled"],
        ),
        "C14" => (
            vec![prog(Limits, k(70_000)), prog(General, k(15_000)), scn(Scenario::Bytes(3), k(8_000))],
            "exploration",
            "broker Maximum Packet Size from {2,4,5,6,7,9,16,24,40,64,200,2000}, request sizes around the limit, tiny limits with acks owed, retained packets replayed under a smaller limit, receive buffers 8..4096 with inbound packets up to exactly the buffer size; Bytes(3): inbound packets of receive-buffer size -3..+6 for 18 buffer sizes (16..20000) before and after CONNACK. non-trivial = a request was refused as too large, sent exactly at the limit, or an ack did not fit",
            &["refused_packet_too_large", "outbound_exactly_at_max", "closed_because_ack_too_large", "inbound_just_over_rx_buffer"],
        ),
        "C15" => (
            vec![enumerated(Scenario::FragTwin(0), 32_768), scn(Scenario::FragTwin(1), k(30_000)), enumerated(Scenario::FragTwin(2), 32_768), enumerated(Scenario::FragTwin(3), 3_072), enumerated(Scenario::FragTwin(4), 192), enumerated(Scenario::FragTwin(5), 112)],
            "fault_enumeration",
            "FragTwin(0): all 2^(n-1) chunkings of short inbound streams (enumerated); FragTwin(1): random chunkings and partial-write patterns of long scripts; FragTwin(2): the same eight streams cut at every combination of the first 8 split points with the pieces arriving 300 ms apart while a 1 s keep-alive runs (the library's own deadline fires between fragments), comparing deliveries and non-PINGREQ packets; FragTwin(3): six streams that start with a packet whose remaining length needs 2 or 3 bytes (127/128/129, 200, 300, 16383, 16384), cut at every combination of the first 8 split points, pieces 300 ms apart, the read between them interrupted by the 1 s keep-alive deadline or by a 100 ms application timeout; FragTwin(4): the transport dies right after the first write call of a PUBLISH (QoS 1, QoS 2), SUBSCRIBE or PUBREL, which accepted either the whole packet or only its first k bytes (k = 1..48), and the session is resumed: the resumed connection must carry the same bytes; FragTwin(5): 14 streams x first piece of 1..8 bytes, the second piece 300 ms later, the application's poll times out after 100 ms, the connection is dropped and the session reconnects (the stream then arrives in one piece): connect() and the fatal results must be those of the run whose first stream arrived in one piece; delivered messages, operation results and outbound bytes must equal the unfragmented run",
            &["twin_fragmented"],
        ),
        "C16" => (
            vec![prog(General, k(25_000)), prog(Qos1, k(10_000)), prog(Qos2, k(10_000)), prog(Inbound, k(10_000)), prog(Sessions, k(10_000)), prog(Quota, k(8_000)), prog(Limits, k(8_000)), prog(IdWrap, k(5_000))],
            "exploration",
            "after every explored run all faults are switched off, the broker answers promptly, and poll() is repeated (reconnecting with the session present if needed); bounds 4P+16 returns and (P+2)x(tx+rx) bytes; every accepted operation complete, nothing owed, publish-quiescent; watchdogs on I/O calls, clock reads and polls without time advance. non-trivial = the drain started with P > 0",
            &["drain_with_pending"],
        ),
        "C17" => (
            vec![scn(Scenario::AgeTwin, k(8_000)), prog(Aging, k(3_000))],
            "exploration",
            "ageing runs of up to 2000 operations (payloads empty to arena-filling, all ack orders, QoS 0 and reconnects in between) over arenas 16..4096; every retransmission equals the first transmission except DUP; AgeTwin: after everything is acknowledged a probe battery gives the same accept/refuse answers as on a brand-new session",
            &["aged_probe_battery", "retransmission_seen"],
        ),
        "C18" => (
            vec![prog(General, k(40_000)), prog(Qos1, k(15_000)), prog(Qos2, k(15_000)), prog(Sessions, k(20_000))],
            "exploration",
            "status of every handle ever issued is compared with the ledger after every operation (pending/complete/invalidated), failing reason codes must surface as Rejected(code) from the poll that consumed them. non-trivial = a failing acknowledgement or a fresh session occurred",
            &["fresh_session", "ack_failure_code"],
        ),
        "C19" => (
            vec![prog(Invalid, k(60_000)), prog(Limits, k(15_000)), prog(Sessions, k(15_000)), enumerated(Scenario::Table, if q { 96 } else { 960 } * crate::scen2::table_cases())],
            "fault_enumeration",
            "27 property kinds x {publish, subscribe, unsubscribe, disconnect, will} x boundary values: the will column is enumerated in every Invalid run, Table enumerates the rest in random session states; random programs issue invalid requests at random points and check that nothing of them reaches the wire and that quiescence/can_publish/handles are unchanged; Maximum QoS x requested QoS x downgrade. non-trivial = an invalid-request probe was evaluated",
            &["invalid_probe_evaluated", "will_table_entry"],
        ),
        "C08" => {
            exhaustive = false;
            (
                vec![enumerated(Scenario::Bytes(0), if q { 131_586 } else { 33_686_018 }), scn(Scenario::Bytes(1), k(60_000)), enumerated(Scenario::Bytes(2), 43_008), scn(Scenario::Bytes(3), k(8_000)), prog(Inbound, k(12_000)), prog(Sessions, k(4_000))],
                "fault_enumeration",
                "Bytes(0): every byte string of length <= 2 (quick) / <= 3 (thorough) fed through the transport before and after CONNACK; Bytes(2): every first byte x length-field forms x shorter/exact/longer body; Bytes(1): valid server packets of every type with random legal property sets, then mutated; Bytes(3): valid packets whose total size is the receive-buffer size -3..+6 for 18 buffer sizes on both sides of the 1/2/3-byte length-field boundaries; oracle = reference classifier (valid => accepted with the values sent; listed malformations => invalid-packet error, dead handle, nothing acted upon, reconnect works; malformation inside a property block => left open; panic => violation); Inbound/Sessions programs: broker traffic at the limit of what the client advertised (Receive Maximum saturated with QoS 2 deliveries, small broker-side limits in the CONNACK) - a valid inbound PUBLISH that is consumed must be handed over",
                &["bytes_case"],
            )
        }
        _ => return None,
    };
    let mut items: Vec<PlanItem> = items.into_iter().filter(|i| matches!(i.scn, Scenario::Program(_)) || crate::scen::implemented(i.scn)).collect();
    if items.is_empty() {
        return None;
    }
    // Sweep: every oracle runs in every scenario, so a small sample of all the workloads that are
    // not part of this property's own mix is appended (a defect of this property that only shows
    // under another property's workload is otherwise visible only as a cross-property note).
    for s in all_scenarios() {
        if items.iter().any(|i| i.scn == s) {
            continue;
        }
        let space = match s {
            Scenario::Bytes(0) => Some(131_586),
            Scenario::Bytes(2) => Some(43_008),
            Scenario::FaultEnum(_) => Some(241_920),
            Scenario::FragTwin(0) | Scenario::FragTwin(2) => Some(32_768),
            Scenario::FragTwin(3) => Some(3_072),
            Scenario::FragTwin(4) => Some(192),
            Scenario::FragTwin(5) => Some(112),
            Scenario::Table => Some(96 * crate::scen2::table_cases()),
            _ => None,
        };
        let runs = if matches!(s, Scenario::Program(Profile::Aging)) { k(60) } else { k(500) };
        items.push(PlanItem { scn: s, runs, enumerate: false, sample_space: space });
    }
    Some(Plan { items, level, rule, nontrivial, exhaustive, assumptions: COMMON_ASSUMPTIONS.to_vec() })
}

pub fn all_scenarios() -> Vec<Scenario> {
    use Profile::*;
    let mut v: Vec<Scenario> = [General, Qos1, Qos2, Inbound, Sessions, Quota, IdWrap, Limits, Timing, Aging, Invalid].iter().map(|p| Scenario::Program(*p)).collect();
    v.extend(crate::scen::extra_scenarios());
    v
}
