//! Which scenarios decide which property, how many runs per tier, and what counts as non-trivial.

use crate::world::Profile;
use crate::Scenario;

pub struct PlanItem {
    pub scn: Scenario,
    pub runs: u64,
    /// `extra` = run index (enumerated sub-space) instead of 0
    pub enumerate: bool,
}

pub struct Plan {
    pub items: Vec<PlanItem>,
    pub level: &'static str,
    pub rule: &'static str,
    pub nontrivial: &'static [&'static str],
    pub exhaustive: bool,
    pub assumptions: Vec<&'static str>,
}

fn prog(p: Profile, runs: u64) -> PlanItem {
    PlanItem { scn: Scenario::Program(p), runs, enumerate: false }
}

const COMMON_ASSUMPTIONS: [&str; 4] = [
    "the reference MQTT 5 codec and broker model in /verif/sim (trusted, ~1500 lines) are right",
    "the transport obeys the embedded-io-async contract (no Ok(0) writes, cancel-safe futures, reliable ordered byte stream per connection)",
    "the embassy time base is monotonic; 1 tick = 1 us",
    "seeded sampling, not proof: a clean batch is evidence only for the explored runs",
];

pub fn plan_for(prop: &str, tier: &str) -> Option<Plan> {
    let q = tier == "quick";
    let k = |quick: u64, thorough: u64| if q { quick } else { thorough };
    use Profile::*;
    let (items, level, rule, nontrivial): (Vec<PlanItem>, &'static str, &'static str, &'static [&'static str]) = match prop {
        "C01" => (
            vec![prog(General, k(60_000, 3_000_000)), prog(Sessions, k(30_000, 1_500_000)), prog(Inbound, k(30_000, 1_500_000))],
            "exploration",
            "random programs x partial writes x stalls/cancellation x errors x reconnects; every outbound byte parsed by the strict reference decoder; non-trivial = a partial write or a cancellation actually happened; distinct by event-kind trace hash",
            &["partial_write", "cancel_at_stall", "cancel_at_read_or_timer"],
        ),
        _ => return None,
    };
    Some(Plan { items, level, rule, nontrivial, exhaustive: false, assumptions: COMMON_ASSUMPTIONS.to_vec() })
}

pub fn all_scenarios() -> Vec<Scenario> {
    use Profile::*;
    let mut v: Vec<Scenario> = [General, Qos1, Qos2, Inbound, Sessions, Quota, IdWrap, Limits, Timing, Aging, Invalid].iter().map(|p| Scenario::Program(*p)).collect();
    v.extend(crate::scen::extra_scenarios());
    v
}
