//! Simulated time driver. 1 tick = 1 us. State is thread-local so that parallel runs on
//! different OS threads share the driver symbol without sharing time.

use core::task::Waker;
use std::cell::Cell;

thread_local! {
    static NOW: Cell<u64> = const { Cell::new(0) };
    static NEXT_WAKE: Cell<Option<u64>> = const { Cell::new(None) };
    static NOW_CALLS: Cell<u64> = const { Cell::new(0) };
    static NOW_LIMIT: Cell<u64> = const { Cell::new(u64::MAX) };
    static ORIGIN: Cell<u64> = const { Cell::new(0) };
}

struct SimDriver;

impl embassy_time_driver::Driver for SimDriver {
    fn now(&self) -> u64 {
        NOW_CALLS.with(|c| {
            let v = c.get() + 1;
            c.set(v);
            if v > NOW_LIMIT.with(|l| l.get()) {
                // Watchdog: an unbounded loop that does no I/O but reads the clock.
                NOW_LIMIT.with(|l| l.set(u64::MAX));
                panic!("WATCHDOG: now() called too often within one client poll");
            }
        });
        NOW.with(|n| n.get())
    }
    fn schedule_wake(&self, at: u64, _waker: &Waker) {
        NEXT_WAKE.with(|w| {
            let cur = w.get();
            w.set(Some(cur.map_or(at, |c| c.min(at))));
        });
    }
}

embassy_time_driver::time_driver_impl!(static DRIVER: SimDriver = SimDriver);

pub const US_PER_S: u64 = 1_000_000;
pub const US_PER_MS: u64 = 1_000;

pub fn now() -> u64 {
    NOW.with(|n| n.get())
}
/// The instant at which this run's clock starts (swarm parameter: 0 in most runs, otherwise just
/// below a 32-bit microsecond/millisecond wrap or far out).
pub fn set_origin(o: u64) {
    ORIGIN.with(|x| x.set(o));
}
pub fn origin() -> u64 {
    ORIGIN.with(|x| x.get())
}
pub fn reset() {
    NOW.with(|n| n.set(ORIGIN.with(|x| x.get())));
    NEXT_WAKE.with(|w| w.set(None));
    NOW_CALLS.with(|c| c.set(0));
    NOW_LIMIT.with(|l| l.set(u64::MAX));
}
pub fn advance_to(t: u64) {
    NOW.with(|n| {
        if t > n.get() {
            n.set(t)
        }
    });
}
pub fn take_wake() -> Option<u64> {
    NEXT_WAKE.with(|w| w.take())
}
pub fn clear_wake() {
    NEXT_WAKE.with(|w| w.set(None));
}
/// Arm the per-poll watchdog on `now()` calls.
pub fn arm_now_watchdog(limit: u64) {
    NOW_CALLS.with(|c| c.set(0));
    NOW_LIMIT.with(|l| l.set(limit));
}
pub fn disarm_now_watchdog() {
    NOW_LIMIT.with(|l| l.set(u64::MAX));
}
