//! Independent reference MQTT 5.0 codec (written from the OASIS text, shares nothing with
//! minimq's serde codec). Strict decoder for both directions, encoder for both directions.

#[derive(Clone, Debug, PartialEq, Eq, PartialOrd, Ord)]
pub enum PVal {
    Byte(u8),
    U16(u16),
    U32(u32),
    Var(u32),
    Str(String),
    Bin(Vec<u8>),
    Pair(String, String),
}

#[derive(Clone, Debug, PartialEq, Eq, PartialOrd, Ord)]
pub struct Prop {
    pub id: u8,
    pub val: PVal,
}

#[derive(Copy, Clone, Debug, PartialEq, Eq)]
pub enum PKind {
    Byte,
    U16,
    U32,
    Var,
    Str,
    Bin,
    Pair,
}

/// MQTT 5.0 table 2-4: identifier -> data type.
pub fn prop_kind(id: u8) -> Option<PKind> {
    Some(match id {
        0x01 | 0x17 | 0x19 | 0x24 | 0x25 | 0x28 | 0x29 | 0x2A => PKind::Byte,
        0x13 | 0x21 | 0x22 | 0x23 => PKind::U16,
        0x02 | 0x11 | 0x18 | 0x27 => PKind::U32,
        0x0B => PKind::Var,
        0x03 | 0x08 | 0x12 | 0x15 | 0x1A | 0x1C | 0x1F => PKind::Str,
        0x09 | 0x16 => PKind::Bin,
        0x26 => PKind::Pair,
        _ => return None,
    })
}

pub const ALL_PROP_IDS: [u8; 27] = [
    0x01, 0x02, 0x03, 0x08, 0x09, 0x0B, 0x11, 0x12, 0x13, 0x15, 0x16, 0x17, 0x18, 0x19, 0x1A, 0x1C,
    0x1F, 0x21, 0x22, 0x23, 0x24, 0x25, 0x26, 0x27, 0x28, 0x29, 0x2A,
];

#[derive(Copy, Clone, Debug, PartialEq, Eq)]
pub enum Ctx {
    Connect,
    Will,
    ConnAck,
    PublishC2S,
    PublishS2C,
    Ack, // PUBACK, PUBREC, PUBREL, PUBCOMP, SUBACK, UNSUBACK
    Subscribe,
    Unsubscribe,
    DisconnectC2S,
    DisconnectS2C,
    Auth,
}

/// Which property identifiers MQTT 5.0 allows in which packet (table 2-4 and the per-packet
/// sections).
pub fn prop_allowed(id: u8, ctx: Ctx) -> bool {
    match ctx {
        Ctx::Connect => matches!(id, 0x11 | 0x21 | 0x27 | 0x22 | 0x19 | 0x17 | 0x26 | 0x15 | 0x16),
        Ctx::Will => matches!(id, 0x18 | 0x01 | 0x02 | 0x03 | 0x08 | 0x09 | 0x26),
        Ctx::ConnAck => matches!(
            id,
            0x11 | 0x21
                | 0x24
                | 0x25
                | 0x27
                | 0x12
                | 0x22
                | 0x1F
                | 0x26
                | 0x28
                | 0x29
                | 0x2A
                | 0x13
                | 0x1A
                | 0x1C
                | 0x15
                | 0x16
        ),
        Ctx::PublishC2S => matches!(id, 0x01 | 0x02 | 0x23 | 0x08 | 0x09 | 0x26 | 0x03),
        Ctx::PublishS2C => matches!(id, 0x01 | 0x02 | 0x23 | 0x08 | 0x09 | 0x26 | 0x0B | 0x03),
        Ctx::Ack => matches!(id, 0x1F | 0x26),
        Ctx::Subscribe => matches!(id, 0x0B | 0x26),
        Ctx::Unsubscribe => matches!(id, 0x26),
        Ctx::DisconnectC2S => matches!(id, 0x11 | 0x1F | 0x26 | 0x1C),
        Ctx::DisconnectS2C => matches!(id, 0x11 | 0x1F | 0x26 | 0x1C),
        Ctx::Auth => matches!(id, 0x15 | 0x16 | 0x1F | 0x26),
    }
}

fn prop_value_ok(p: &Prop) -> bool {
    match (&p.val, p.id) {
        (PVal::Byte(v), 0x01 | 0x17 | 0x19 | 0x25 | 0x28 | 0x29 | 0x2A) => *v <= 1,
        (PVal::Byte(v), 0x24) => *v <= 1, // Maximum QoS property: only 0 or 1 are legal on the wire
        (PVal::U16(v), 0x21 | 0x23) => *v != 0,
        (PVal::U32(v), 0x27) => *v != 0,
        (PVal::Var(v), 0x0B) => *v != 0,
        _ => true,
    }
}

#[derive(Clone, Debug, PartialEq, Eq)]
pub struct SubFilter {
    pub filter: String,
    pub max_qos: u8,
    pub no_local: bool,
    pub rap: bool,
    pub retain_handling: u8,
}

#[derive(Clone, Debug, PartialEq, Eq)]
pub struct WillMsg {
    pub qos: u8,
    pub retain: bool,
    pub props: Vec<Prop>,
    pub topic: String,
    pub payload: Vec<u8>,
}

#[derive(Clone, Debug, PartialEq, Eq)]
pub enum Packet {
    Connect {
        clean_start: bool,
        keepalive: u16,
        props: Vec<Prop>,
        client_id: String,
        will: Option<WillMsg>,
        user: Option<String>,
        password: Option<Vec<u8>>,
    },
    ConnAck {
        session_present: bool,
        reason: u8,
        props: Vec<Prop>,
    },
    Publish {
        dup: bool,
        qos: u8,
        retain: bool,
        topic: String,
        id: Option<u16>,
        props: Vec<Prop>,
        payload: Vec<u8>,
    },
    /// PUBACK(4) PUBREC(5) PUBREL(6) PUBCOMP(7). `reason`/`props` None = omitted on the wire.
    Ack {
        typ: u8,
        id: u16,
        reason: Option<u8>,
        props: Option<Vec<Prop>>,
    },
    Subscribe {
        id: u16,
        props: Vec<Prop>,
        filters: Vec<SubFilter>,
    },
    /// SUBACK(9) UNSUBACK(11)
    SubAck {
        typ: u8,
        id: u16,
        props: Vec<Prop>,
        codes: Vec<u8>,
    },
    Unsubscribe {
        id: u16,
        props: Vec<Prop>,
        filters: Vec<String>,
    },
    PingReq,
    PingResp,
    Disconnect {
        reason: Option<u8>,
        props: Option<Vec<Prop>>,
    },
    Auth {
        reason: Option<u8>,
        props: Option<Vec<Prop>>,
    },
}

impl Packet {
    pub fn type_name(&self) -> &'static str {
        match self {
            Packet::Connect { .. } => "CONNECT",
            Packet::ConnAck { .. } => "CONNACK",
            Packet::Publish { .. } => "PUBLISH",
            Packet::Ack { typ: 4, .. } => "PUBACK",
            Packet::Ack { typ: 5, .. } => "PUBREC",
            Packet::Ack { typ: 6, .. } => "PUBREL",
            Packet::Ack { .. } => "PUBCOMP",
            Packet::Subscribe { .. } => "SUBSCRIBE",
            Packet::SubAck { typ: 9, .. } => "SUBACK",
            Packet::SubAck { .. } => "UNSUBACK",
            Packet::Unsubscribe { .. } => "UNSUBSCRIBE",
            Packet::PingReq => "PINGREQ",
            Packet::PingResp => "PINGRESP",
            Packet::Disconnect { .. } => "DISCONNECT",
            Packet::Auth { .. } => "AUTH",
        }
    }
}

pub fn type_name_of(t: u8) -> &'static str {
    match t {
        1 => "CONNECT",
        2 => "CONNACK",
        3 => "PUBLISH",
        4 => "PUBACK",
        5 => "PUBREC",
        6 => "PUBREL",
        7 => "PUBCOMP",
        8 => "SUBSCRIBE",
        9 => "SUBACK",
        10 => "UNSUBSCRIBE",
        11 => "UNSUBACK",
        12 => "PINGREQ",
        13 => "PINGRESP",
        14 => "DISCONNECT",
        15 => "AUTH",
        _ => "RESERVED",
    }
}

#[derive(Copy, Clone, Debug, PartialEq, Eq)]
pub enum Dir {
    ClientToServer,
    ServerToClient,
}

/// Why a byte string is not a well-formed packet. The class decides how C08 treats it.
#[derive(Clone, Debug, PartialEq, Eq)]
pub enum DecErr {
    /// Need more bytes to know (only from `frame`).
    Incomplete,
    BadVarint,
    ReservedType(u8),
    WrongDirection(u8),
    BadFlags { typ: u8, flags: u8 },
    BadQos,
    Truncated(&'static str),
    Trailing(&'static str),
    BadUtf8(&'static str),
    ZeroPacketId,
    /// Something wrong inside a property block of an otherwise well-framed packet.
    Property(String),
    /// Other protocol-level malformation (bad protocol name, reserved bits, empty filter list...)
    Other(String),
}

/// Decode the fixed header length field. Returns (value, bytes used).
pub fn read_varint(b: &[u8]) -> Result<(u32, usize), DecErr> {
    let mut v: u32 = 0;
    for i in 0..4 {
        let Some(&x) = b.get(i) else {
            return Err(DecErr::Incomplete);
        };
        v |= ((x & 0x7F) as u32) << (7 * i);
        if x & 0x80 == 0 {
            if i > 0 && x == 0 {
                return Err(DecErr::BadVarint); // non-canonical (over-long) encoding
            }
            return Ok((v, i + 1));
        }
    }
    Err(DecErr::BadVarint)
}

pub fn write_varint(mut v: u32, out: &mut Vec<u8>) {
    loop {
        let mut b = (v & 0x7F) as u8;
        v >>= 7;
        if v != 0 {
            b |= 0x80;
        }
        out.push(b);
        if v == 0 {
            break;
        }
    }
}

pub fn varint_len(v: u32) -> usize {
    match v {
        0..=0x7F => 1,
        0x80..=0x3FFF => 2,
        0x4000..=0x1F_FFFF => 3,
        _ => 4,
    }
}

/// Total length of the packet starting at b[0], once the fixed header is complete.
pub fn frame(b: &[u8]) -> Result<usize, DecErr> {
    if b.is_empty() {
        return Err(DecErr::Incomplete);
    }
    let (rl, n) = read_varint(&b[1..])?;
    Ok(1 + n + rl as usize)
}

struct Rd<'a> {
    b: &'a [u8],
    p: usize,
}

impl<'a> Rd<'a> {
    fn left(&self) -> usize {
        self.b.len() - self.p
    }
    fn u8(&mut self, what: &'static str) -> Result<u8, DecErr> {
        let v = *self.b.get(self.p).ok_or(DecErr::Truncated(what))?;
        self.p += 1;
        Ok(v)
    }
    fn u16(&mut self, what: &'static str) -> Result<u16, DecErr> {
        Ok(u16::from_be_bytes([self.u8(what)?, self.u8(what)?]))
    }
    fn u32(&mut self, what: &'static str) -> Result<u32, DecErr> {
        Ok(u32::from_be_bytes([
            self.u8(what)?,
            self.u8(what)?,
            self.u8(what)?,
            self.u8(what)?,
        ]))
    }
    fn take(&mut self, n: usize, what: &'static str) -> Result<&'a [u8], DecErr> {
        if self.left() < n {
            return Err(DecErr::Truncated(what));
        }
        let s = &self.b[self.p..self.p + n];
        self.p += n;
        Ok(s)
    }
    fn bin(&mut self, what: &'static str) -> Result<Vec<u8>, DecErr> {
        let n = self.u16(what)? as usize;
        Ok(self.take(n, what)?.to_vec())
    }
    fn str(&mut self, what: &'static str) -> Result<String, DecErr> {
        let n = self.u16(what)? as usize;
        let s = self.take(n, what)?;
        let s = core::str::from_utf8(s).map_err(|_| DecErr::BadUtf8(what))?;
        // [MQTT-1.5.4-2] no U+0000
        if s.contains('\0') {
            return Err(DecErr::Other(format!("U+0000 in {what}")));
        }
        Ok(s.to_string())
    }
    fn varint(&mut self, _what: &'static str) -> Result<u32, DecErr> {
        match read_varint(&self.b[self.p..]) {
            Ok((v, n)) => {
                self.p += n;
                Ok(v)
            }
            Err(DecErr::Incomplete) => Err(DecErr::Truncated("varint")),
            Err(e) => Err(e),
        }
    }
}

fn decode_props(r: &mut Rd<'_>, ctx: Ctx) -> Result<Vec<Prop>, DecErr> {
    let len = r.varint("property length")? as usize;
    if r.left() < len {
        return Err(DecErr::Truncated("property block"));
    }
    let block = &r.b[r.p..r.p + len];
    r.p += len;
    let mut pr = Rd { b: block, p: 0 };
    let mut out: Vec<Prop> = Vec::new();
    let perr = |s: String| DecErr::Property(s);
    while pr.left() > 0 {
        let id = pr.varint("property id").map_err(|e| perr(format!("id {:?}", e)))?;
        if id > 0xFF {
            return Err(perr(format!("unknown id {id:#x}")));
        }
        let id = id as u8;
        let kind = prop_kind(id).ok_or_else(|| perr(format!("unknown id {id:#x}")))?;
        let m = |e: DecErr| DecErr::Property(format!("value of {id:#x}: {e:?}"));
        let val = match kind {
            PKind::Byte => PVal::Byte(pr.u8("prop").map_err(m)?),
            PKind::U16 => PVal::U16(pr.u16("prop").map_err(m)?),
            PKind::U32 => PVal::U32(pr.u32("prop").map_err(m)?),
            PKind::Var => PVal::Var(pr.varint("prop").map_err(m)?),
            PKind::Str => PVal::Str(pr.str("prop").map_err(m)?),
            PKind::Bin => PVal::Bin(pr.bin("prop").map_err(m)?),
            PKind::Pair => {
                let k = pr.str("prop").map_err(m)?;
                let v = pr.str("prop").map_err(m)?;
                PVal::Pair(k, v)
            }
        };
        let p = Prop { id, val };
        if !prop_allowed(id, ctx) {
            return Err(perr(format!("property {id:#x} not allowed in {ctx:?}")));
        }
        if !prop_value_ok(&p) {
            return Err(perr(format!("illegal value {:?}", p)));
        }
        let multi_ok = id == 0x26 || (id == 0x0B && ctx == Ctx::PublishS2C);
        if !multi_ok && out.iter().any(|q| q.id == id) {
            return Err(perr(format!("property {id:#x} repeated")));
        }
        out.push(p);
    }
    Ok(out)
}

/// Strictly decode exactly one packet occupying all of `b`.
pub fn decode(b: &[u8], dir: Dir) -> Result<Packet, DecErr> {
    if b.is_empty() {
        return Err(DecErr::Incomplete);
    }
    let total = frame(b)?;
    if b.len() < total {
        return Err(DecErr::Incomplete);
    }
    if b.len() > total {
        return Err(DecErr::Trailing("bytes after packet"));
    }
    let typ = b[0] >> 4;
    let flags = b[0] & 0x0F;
    let (_, n) = read_varint(&b[1..])?;
    let mut r = Rd { b: &b[..total], p: 1 + n };

    let c2s = matches!(typ, 1 | 3 | 4 | 5 | 6 | 7 | 8 | 10 | 12 | 14 | 15);
    let s2c = matches!(typ, 2 | 3 | 4 | 5 | 6 | 7 | 9 | 11 | 13 | 14 | 15);
    if typ == 0 {
        return Err(DecErr::ReservedType(typ));
    }
    match dir {
        Dir::ClientToServer if !c2s => return Err(DecErr::WrongDirection(typ)),
        Dir::ServerToClient if !s2c => return Err(DecErr::WrongDirection(typ)),
        _ => {}
    }
    let want_flags = match typ {
        3 => None,
        6 | 8 | 10 => Some(0b0010),
        _ => Some(0),
    };
    if let Some(w) = want_flags {
        if flags != w {
            return Err(DecErr::BadFlags { typ, flags });
        }
    }

    let pkt = match typ {
        1 => {
            let name = r.str("protocol name")?;
            if name != "MQTT" {
                return Err(DecErr::Other(format!("protocol name {name:?}")));
            }
            let level = r.u8("protocol level")?;
            if level != 5 {
                return Err(DecErr::Other(format!("protocol level {level}")));
            }
            let cf = r.u8("connect flags")?;
            if cf & 1 != 0 {
                return Err(DecErr::Other("reserved connect flag set".into()));
            }
            let clean_start = cf & 2 != 0;
            let will_flag = cf & 4 != 0;
            let will_qos = (cf >> 3) & 3;
            let will_retain = cf & 0x20 != 0;
            let pw_flag = cf & 0x40 != 0;
            let user_flag = cf & 0x80 != 0;
            if will_qos == 3 {
                return Err(DecErr::BadQos);
            }
            if !will_flag && (will_qos != 0 || will_retain) {
                return Err(DecErr::Other("will qos/retain without will flag".into()));
            }
            let keepalive = r.u16("keep alive")?;
            let props = decode_props(&mut r, Ctx::Connect)?;
            let client_id = r.str("client id")?;
            let will = if will_flag {
                let wprops = decode_props(&mut r, Ctx::Will)?;
                let topic = r.str("will topic")?;
                let payload = r.bin("will payload")?;
                Some(WillMsg {
                    qos: will_qos,
                    retain: will_retain,
                    props: wprops,
                    topic,
                    payload,
                })
            } else {
                None
            };
            let user = if user_flag { Some(r.str("user name")?) } else { None };
            let password = if pw_flag { Some(r.bin("password")?) } else { None };
            Packet::Connect {
                clean_start,
                keepalive,
                props,
                client_id,
                will,
                user,
                password,
            }
        }
        2 => {
            let f = r.u8("connack flags")?;
            if f > 1 {
                return Err(DecErr::Other("reserved connack flag bits".into()));
            }
            let reason = r.u8("connack reason")?;
            let props = decode_props(&mut r, Ctx::ConnAck)?;
            Packet::ConnAck {
                session_present: f == 1,
                reason,
                props,
            }
        }
        3 => {
            let qos = (flags >> 1) & 3;
            if qos == 3 {
                return Err(DecErr::BadQos);
            }
            let dup = flags & 8 != 0;
            if qos == 0 && dup {
                return Err(DecErr::BadFlags { typ, flags });
            }
            let topic = r.str("topic")?;
            let id = if qos > 0 {
                let id = r.u16("packet id")?;
                if id == 0 {
                    return Err(DecErr::ZeroPacketId);
                }
                Some(id)
            } else {
                None
            };
            let props = decode_props(
                &mut r,
                if dir == Dir::ClientToServer {
                    Ctx::PublishC2S
                } else {
                    Ctx::PublishS2C
                },
            )?;
            if topic.contains(['#', '+']) {
                return Err(DecErr::Other("wildcard in topic name".into()));
            }
            let has_alias = props.iter().any(|p| p.id == 0x23);
            if topic.is_empty() && !has_alias {
                return Err(DecErr::Other("empty topic without alias".into()));
            }
            let payload = r.take(r.left(), "payload")?.to_vec();
            Packet::Publish {
                dup,
                qos,
                retain: flags & 1 != 0,
                topic,
                id,
                props,
                payload,
            }
        }
        4..=7 => {
            let id = r.u16("packet id")?;
            if id == 0 {
                return Err(DecErr::ZeroPacketId);
            }
            let (reason, props) = if r.left() == 0 {
                (None, None)
            } else {
                let reason = r.u8("reason")?;
                if r.left() == 0 {
                    (Some(reason), None)
                } else {
                    (Some(reason), Some(decode_props(&mut r, Ctx::Ack)?))
                }
            };
            Packet::Ack {
                typ,
                id,
                reason,
                props,
            }
        }
        8 => {
            let id = r.u16("packet id")?;
            if id == 0 {
                return Err(DecErr::ZeroPacketId);
            }
            let props = decode_props(&mut r, Ctx::Subscribe)?;
            let mut filters = Vec::new();
            while r.left() > 0 {
                let filter = r.str("topic filter")?;
                let o = r.u8("subscription options")?;
                if o & 0xC0 != 0 {
                    return Err(DecErr::Other("reserved subscription option bits".into()));
                }
                if o & 3 == 3 {
                    return Err(DecErr::BadQos);
                }
                if (o >> 4) & 3 == 3 {
                    return Err(DecErr::Other("retain handling 3".into()));
                }
                if filter.is_empty() {
                    return Err(DecErr::Other("empty topic filter".into()));
                }
                filters.push(SubFilter {
                    filter,
                    max_qos: o & 3,
                    no_local: o & 4 != 0,
                    rap: o & 8 != 0,
                    retain_handling: (o >> 4) & 3,
                });
            }
            if filters.is_empty() {
                return Err(DecErr::Other("SUBSCRIBE without filters".into()));
            }
            Packet::Subscribe { id, props, filters }
        }
        9 | 11 => {
            let id = r.u16("packet id")?;
            if id == 0 {
                return Err(DecErr::ZeroPacketId);
            }
            let props = decode_props(&mut r, Ctx::Ack)?;
            let codes = r.take(r.left(), "codes")?.to_vec();
            if codes.is_empty() {
                return Err(DecErr::Other("no reason codes".into()));
            }
            Packet::SubAck {
                typ,
                id,
                props,
                codes,
            }
        }
        10 => {
            let id = r.u16("packet id")?;
            if id == 0 {
                return Err(DecErr::ZeroPacketId);
            }
            let props = decode_props(&mut r, Ctx::Unsubscribe)?;
            let mut filters = Vec::new();
            while r.left() > 0 {
                let f = r.str("topic filter")?;
                if f.is_empty() {
                    return Err(DecErr::Other("empty topic filter".into()));
                }
                filters.push(f);
            }
            if filters.is_empty() {
                return Err(DecErr::Other("UNSUBSCRIBE without filters".into()));
            }
            Packet::Unsubscribe { id, props, filters }
        }
        12 => Packet::PingReq,
        13 => Packet::PingResp,
        14 | 15 => {
            let ctx = match (typ, dir) {
                (14, Dir::ClientToServer) => Ctx::DisconnectC2S,
                (14, Dir::ServerToClient) => Ctx::DisconnectS2C,
                _ => Ctx::Auth,
            };
            let (reason, props) = if r.left() == 0 {
                (None, None)
            } else {
                let reason = r.u8("reason")?;
                if r.left() == 0 {
                    (Some(reason), None)
                } else {
                    (Some(reason), Some(decode_props(&mut r, ctx)?))
                }
            };
            if typ == 14 {
                Packet::Disconnect { reason, props }
            } else {
                Packet::Auth { reason, props }
            }
        }
        _ => return Err(DecErr::ReservedType(typ)),
    };
    if r.left() != 0 {
        return Err(DecErr::Trailing("bytes after last field"));
    }
    Ok(pkt)
}

// ---------------------------------------------------------------- encoder

fn put_str(out: &mut Vec<u8>, s: &str) {
    out.extend_from_slice(&(s.len() as u16).to_be_bytes());
    out.extend_from_slice(s.as_bytes());
}
fn put_bin(out: &mut Vec<u8>, s: &[u8]) {
    out.extend_from_slice(&(s.len() as u16).to_be_bytes());
    out.extend_from_slice(s);
}

pub fn encode_prop(p: &Prop, out: &mut Vec<u8>) {
    out.push(p.id);
    match &p.val {
        PVal::Byte(v) => out.push(*v),
        PVal::U16(v) => out.extend_from_slice(&v.to_be_bytes()),
        PVal::U32(v) => out.extend_from_slice(&v.to_be_bytes()),
        PVal::Var(v) => write_varint(*v, out),
        PVal::Str(s) => put_str(out, s),
        PVal::Bin(b) => put_bin(out, b),
        PVal::Pair(k, v) => {
            put_str(out, k);
            put_str(out, v);
        }
    }
}

pub fn encode_props(props: &[Prop], out: &mut Vec<u8>) {
    let mut body = Vec::new();
    for p in props {
        encode_prop(p, &mut body);
    }
    write_varint(body.len() as u32, out);
    out.extend_from_slice(&body);
}

pub fn props_len(props: &[Prop]) -> usize {
    let mut v = Vec::new();
    encode_props(props, &mut v);
    v.len()
}

pub fn encode(p: &Packet) -> Vec<u8> {
    let mut body = Vec::new();
    let first: u8;
    match p {
        Packet::Connect {
            clean_start,
            keepalive,
            props,
            client_id,
            will,
            user,
            password,
        } => {
            first = 0x10;
            put_str(&mut body, "MQTT");
            body.push(5);
            let mut f = 0u8;
            if *clean_start {
                f |= 2;
            }
            if let Some(w) = will {
                f |= 4 | (w.qos << 3);
                if w.retain {
                    f |= 0x20;
                }
            }
            if password.is_some() {
                f |= 0x40;
            }
            if user.is_some() {
                f |= 0x80;
            }
            body.push(f);
            body.extend_from_slice(&keepalive.to_be_bytes());
            encode_props(props, &mut body);
            put_str(&mut body, client_id);
            if let Some(w) = will {
                encode_props(&w.props, &mut body);
                put_str(&mut body, &w.topic);
                put_bin(&mut body, &w.payload);
            }
            if let Some(u) = user {
                put_str(&mut body, u);
            }
            if let Some(pw) = password {
                put_bin(&mut body, pw);
            }
        }
        Packet::ConnAck {
            session_present,
            reason,
            props,
        } => {
            first = 0x20;
            body.push(*session_present as u8);
            body.push(*reason);
            encode_props(props, &mut body);
        }
        Packet::Publish {
            dup,
            qos,
            retain,
            topic,
            id,
            props,
            payload,
        } => {
            first = 0x30 | ((*dup as u8) << 3) | (qos << 1) | (*retain as u8);
            put_str(&mut body, topic);
            if let Some(id) = id {
                body.extend_from_slice(&id.to_be_bytes());
            }
            encode_props(props, &mut body);
            body.extend_from_slice(payload);
        }
        Packet::Ack {
            typ,
            id,
            reason,
            props,
        } => {
            first = (typ << 4) | if *typ == 6 { 2 } else { 0 };
            body.extend_from_slice(&id.to_be_bytes());
            if let Some(r) = reason {
                body.push(*r);
                if let Some(ps) = props {
                    encode_props(ps, &mut body);
                }
            }
        }
        Packet::Subscribe { id, props, filters } => {
            first = 0x82;
            body.extend_from_slice(&id.to_be_bytes());
            encode_props(props, &mut body);
            for f in filters {
                put_str(&mut body, &f.filter);
                body.push(
                    f.max_qos
                        | ((f.no_local as u8) << 2)
                        | ((f.rap as u8) << 3)
                        | (f.retain_handling << 4),
                );
            }
        }
        Packet::SubAck {
            typ,
            id,
            props,
            codes,
        } => {
            first = typ << 4;
            body.extend_from_slice(&id.to_be_bytes());
            encode_props(props, &mut body);
            body.extend_from_slice(codes);
        }
        Packet::Unsubscribe { id, props, filters } => {
            first = 0xA2;
            body.extend_from_slice(&id.to_be_bytes());
            encode_props(props, &mut body);
            for f in filters {
                put_str(&mut body, f);
            }
        }
        Packet::PingReq => first = 0xC0,
        Packet::PingResp => first = 0xD0,
        Packet::Disconnect { reason, props } | Packet::Auth { reason, props } => {
            first = if matches!(p, Packet::Disconnect { .. }) {
                0xE0
            } else {
                0xF0
            };
            if let Some(r) = reason {
                body.push(*r);
                if let Some(ps) = props {
                    encode_props(ps, &mut body);
                }
            }
        }
    }
    let mut out = Vec::with_capacity(body.len() + 5);
    out.push(first);
    write_varint(body.len() as u32, &mut out);
    out.extend_from_slice(&body);
    out
}

/// Semantic equality used by C09: optional reason/properties that are omitted on the wire are
/// equivalent to Success / empty.
pub fn normalize(p: &Packet) -> Packet {
    match p {
        Packet::Ack {
            typ,
            id,
            reason,
            props,
        } => Packet::Ack {
            typ: *typ,
            id: *id,
            reason: Some(reason.unwrap_or(0)),
            props: Some(props.clone().unwrap_or_default()),
        },
        Packet::Disconnect { reason, props } => Packet::Disconnect {
            reason: Some(reason.unwrap_or(0)),
            props: Some(props.clone().unwrap_or_default()),
        },
        other => other.clone(),
    }
}

#[cfg(test)]
mod tests {
    use super::*;

    #[test]
    fn roundtrip_literals_from_minimq_tests() {
        // Byte literals taken from minimq's own serializer tests.
        let sub = [0x82, 0x09, 0x00, 0x10, 0x00, 0x00, 0x03, 0x41, 0x42, 0x43, 0x00];
        let p = decode(&sub, Dir::ClientToServer).unwrap();
        assert_eq!(encode(&p), sub);
        let publ = [0x32, 0x0a, 0x00, 0x03, 0x41, 0x42, 0x43, 0xBE, 0xEF, 0x00, 0xAB, 0xCD];
        let p = decode(&publ, Dir::ClientToServer).unwrap();
        assert_eq!(encode(&p), publ);
        assert!(matches!(
            decode(&[0x8A, 0x09, 0x00, 0x10, 0x00, 0x00, 0x03, 0x41, 0x42, 0x43, 0x00], Dir::ClientToServer),
            Err(DecErr::BadFlags { typ: 8, flags: 0b1010 })
        ));
        let connack = [0x20, 0x03, 0x00, 0x00, 0x00];
        assert!(decode(&connack, Dir::ServerToClient).is_ok());
        assert!(decode(&connack, Dir::ClientToServer).is_err());
        assert_eq!(read_varint(&[0x80, 0x00]), Err(DecErr::BadVarint));
        assert_eq!(read_varint(&[0xFF, 0xFF, 0xFF, 0x7F]), Ok((268_435_455, 4)));
        assert_eq!(read_varint(&[0xFF, 0xFF, 0xFF, 0xFF]), Err(DecErr::BadVarint));
    }
}
