//! Swarm configuration, the random-program scenario, the benign drain (C16) and the final
//! reconnect/usability probe (C12).

use crate::app::*;
use crate::broker;
use crate::clock::{self, US_PER_MS, US_PER_S};
use crate::codec::{PVal, Prop};
use crate::util::Tape;
use crate::world::{self, with, Accept, OpWeights, Phase, Profile, ReqKind, RunCfg, WillCfg, World};
use minimq::{Buffers, ConfigBuilder, Property, QoS, Session};

pub fn gen_cfg(t: &mut Tape, profile: Profile) -> RunCfg {
    let rx_opts: [usize; 10] = [128, 64, 32, 16, 8, 256, 1024, 4096, 20, 48];
    let tx_opts: [usize; 12] = [1152, 256, 128, 96, 64, 48, 40, 4096, 32, 16, 8, 5];
    let mut rx_len = rx_opts[t.weighted(&[6, 4, 3, 2, 1, 3, 2, 1, 2, 2])];
    let mut tx_len = tx_opts[t.weighted(&[6, 5, 5, 4, 4, 3, 2, 2, 1, 1, 1, 1])];
    let ka_opts: [u16; 12] = [60, 0, 1, 2, 3, 4, 5, 9, 10, 11, 30, 65535];
    let mut keepalive_s = ka_opts[t.weighted(&[6, 3, 1, 1, 1, 1, 1, 1, 1, 1, 2, 1])];
    let client_id = match t.weighted(&[5, 2, 1, 1]) {
        0 => "sim-client".to_string(),
        1 => String::new(),
        2 => "c".repeat(23),
        _ => "x".repeat(64),
    };
    let will = if t.chance(1, 3) {
        let mut props = Vec::new();
        if t.chance(1, 2) {
            props.push(Prop { id: 0x26, val: PVal::Pair("wk".into(), "wv".into()) });
        }
        if t.chance(1, 3) {
            props.push(Prop { id: 0x02, val: PVal::U32(30) });
        }
        if t.chance(1, 3) {
            props.push(Prop { id: 0x01, val: PVal::Byte(1) });
        }
        if t.chance(1, 4) {
            props.push(Prop { id: 0x08, val: PVal::Str("will/resp".into()) });
        }
        if t.chance(1, 4) {
            props.push(Prop { id: 0x09, val: PVal::Bin(vec![1, 2, 3]) });
        }
        if t.chance(1, 4) {
            props.push(Prop { id: 0x03, val: PVal::Str("text".into()) });
        }
        Some(WillCfg {
            build_order: t.choose(3) as u8,
            topic: ["will", "w/very/long/topic/name/for/the/will/message"][t.choose(2) as usize].to_string(),
            payload: (0..[0usize, 1, 5, 40][t.choose(4) as usize]).map(|i| i as u8).collect(),
            qos: t.choose(3) as u8,
            retain: t.chance(1, 2),
            props,
        })
    } else {
        None
    };
    let auth = if t.chance(1, 4) {
        Some((["user", ""][t.choose(2) as usize].to_string(), (0..[0usize, 4, 20][t.choose(3) as usize]).map(|i| i as u8 ^ 0x5A).collect()))
    } else {
        None
    };
    let mut session_expiry = [3600u32, 0, 1, u32::MAX][t.weighted(&[5, 2, 1, 1])];
    let downgrade = t.chance(1, 3);
    let mut id_burn = match t.weighted(&[6, 2, 1]) {
        0 => 0,
        1 => 65535 - t.choose(10),
        _ => t.choose(70000),
    };
    let mut c = RunCfg {
        profile,
        rx_len,
        tx_len,
        keepalive_s,
        client_id,
        will,
        auth,
        session_expiry,
        downgrade,
        id_burn,
        max_conns: 1 + t.choose(8),
        max_steps: 10 + t.choose(90),
        p_partial_write: [0, 100, 400, 900][t.choose(4) as usize],
        p_frag_read: [0, 100, 400, 900][t.choose(4) as usize],
        p_stall: [0, 30, 120, 300][t.choose(4) as usize],
        p_io_err: [0, 0, 4, 20][t.choose(4) as usize],
        p_cancel: [0, 50, 200, 500][t.choose(4) as usize],
        p_write_zero: [0, 0, 0, 0, 0, 10, 40][t.choose(7) as usize],
        p_slow_write: 0,
        p_peer_stall: 0,
        p_ping_flush_cancel: 0,
        twin_same_timing: false,
        twin_poll_budget_us: 0,
        twin_request_budget: false,
        twin_receive_max: 0,
        zero_time_io: false,
        p_withhold_ack: [0, 50, 200, 500][t.choose(4) as usize],
        p_fail_reason: [0, 0, 50, 200][t.choose(4) as usize],
        p_stale_ack: [0, 20, 100][t.choose(3) as usize],
        p_session_loss: [0, 50, 250][t.choose(3) as usize],
        p_connack_fault: [0, 30, 150][t.choose(3) as usize],
        p_small_limits: [0, 200, 600][t.choose(3) as usize],
        p_dup_inbound: [0, 100, 400][t.choose(3) as usize],
        p_no_pingresp: [0, 0, 200][t.choose(3) as usize],
        delay_law: t.choose(4),
        w: OpWeights {
            poll: 30,
            pub0: 6,
            pub1: 10,
            pub2: 10,
            sub: 4,
            unsub: 3,
            drive: 5,
            recv: 4,
            disconnect: 2,
            drop_conn: 3,
            forget_conn: 1,
            broker_pub: 8,
            broker_fault: 3,
            sleep: 4,
            invalid: 2,
        },
        guards: t.chance(4, 5),
        payload_law: t.choose(4),
        big: 0,
        dense_ids: false,
    };
    // slow link (no tape draw of its own: tied to the heaviest stall/partial-write settings, one
    // run in eight): timers run while a packet is half-written
    if c.p_stall == 300 && c.p_partial_write >= 400 && profile != Profile::Timing {
        c.p_slow_write = 60;
        c.p_peer_stall = 40;
    }
    // rare large-arena runs: 16 KiB / 2 MiB remaining-length boundaries, 65535/65536-byte fields
    let big = matches!(profile, Profile::General | Profile::Limits) && t.chance(1, 120);
    if big {
        c.big = if t.chance(1, 8) { 2 } else { 1 };
        tx_len = if c.big == 2 { 4_400_000 } else { 300_000 };
        c.p_small_limits = 0;
        c.p_io_err = 0;
        c.max_steps = 6 + t.choose(12);
        c.max_conns = 1 + t.choose(3);
        c.w.broker_pub = 1;
        c.w.invalid = 0;
        c.id_burn = 0;
        id_burn = 0;
    }
    // profile-specific biases
    match profile {
        Profile::General => {}
        Profile::Qos1 => {
            c.w.pub1 = 30;
            c.w.pub2 = 2;
            c.w.drop_conn = 8;
            if session_expiry == 0 {
                session_expiry = 3600;
            }
            c.p_withhold_ack = c.p_withhold_ack.max(200);
            c.p_session_loss = [0, 50][t.choose(2) as usize];
            c.max_conns = 2 + t.choose(9);
        }
        Profile::Qos2 => {
            c.w.pub2 = 30;
            c.w.pub1 = 2;
            c.w.drop_conn = 8;
            if session_expiry == 0 {
                session_expiry = 3600;
            }
            c.p_withhold_ack = c.p_withhold_ack.max(200);
            c.p_session_loss = [0, 50][t.choose(2) as usize];
            c.max_conns = 2 + t.choose(9);
        }
        Profile::Inbound => {
            c.w.broker_pub = 40;
            c.w.broker_fault = 6;
            c.w.pub1 = 8;
            c.w.pub2 = 8;
            c.p_dup_inbound = c.p_dup_inbound.max(100);
            if session_expiry == 0 && t.chance(2, 3) {
                session_expiry = 3600;
            }
        }
        Profile::Sessions => {
            c.max_conns = 4 + t.choose(9);
            c.w.drop_conn = 15;
            c.w.forget_conn = 4;
            c.w.disconnect = 6;
            c.p_session_loss = [100, 300, 500][t.choose(3) as usize];
            c.p_connack_fault = [100, 300][t.choose(2) as usize];
            if session_expiry == 0 && t.chance(3, 4) {
                session_expiry = 3600;
            }
            c.max_steps = 30 + t.choose(90);
        }
        Profile::Quota => {
            c.w.pub1 = 25;
            c.w.pub2 = 25;
            c.w.drop_conn = 6;
            c.p_small_limits = 1000;
            c.p_withhold_ack = [100, 400, 700][t.choose(3) as usize];
            if session_expiry == 0 {
                session_expiry = 3600;
            }
            c.payload_law = c.payload_law.min(1);
            if tx_len < 128 {
                tx_len = 256;
            }
        }
        Profile::IdWrap => {
            id_burn = if t.chance(1, 4) { 65535 - 16 + t.choose(24) } else { 65535 - t.choose(10) };
            if t.chance(1, 3) {
                c.dense_ids = true;
                c.p_small_limits = 0;
                c.p_io_err = 0;
                c.p_write_zero = 0;
                if tx_len < 1024 {
                    tx_len = 1152;
                }
                if rx_len < 32 {
                    rx_len = 64;
                }
            }
            c.w.pub1 = 20;
            c.w.pub2 = 12;
            c.w.sub = 8;
            c.w.unsub = 6;
            c.p_withhold_ack = [300, 600, 900][t.choose(3) as usize];
            c.p_session_loss = 0;
            c.p_connack_fault = 0;
            c.payload_law = 0;
            if tx_len < 128 {
                tx_len = 256;
            }
            if session_expiry == 0 {
                session_expiry = 3600;
            }
        }
        Profile::Limits => {
            c.p_small_limits = 1000;
            c.w.broker_pub = 14;
            c.w.disconnect = 5;
            c.payload_law = 1 + t.choose(2);
            if session_expiry == 0 && t.chance(1, 2) {
                session_expiry = 3600;
            }
        }
        Profile::Timing => {
            c.zero_time_io = true;
            c.p_stall = 0;
            c.p_io_err = 0;
            c.p_cancel = 0;
            c.p_partial_write = 0;
            c.p_connack_fault = 0;
            keepalive_s = ka_opts[1 + t.choose(11) as usize];
            if t.chance(1, 3) {
                keepalive_s = 1 + t.choose(70) as u16;
            }
            c.w = OpWeights { poll: 60, pub0: 3, pub1: 3, pub2: 2, sub: 1, broker_pub: 6, ..Default::default() };
            c.delay_law = 2 + t.choose(2);
            c.p_no_pingresp = [0, 100, 400][t.choose(3) as usize];
            c.p_peer_stall = [0, 0, 150][t.choose(3) as usize];
            c.p_ping_flush_cancel = [0, 0, 300][t.choose(3) as usize];
            c.p_withhold_ack = 0;
            c.max_conns = 1 + t.choose(3);
            c.max_steps = 20 + t.choose(120);
            if tx_len < 64 {
                tx_len = 128;
            }
            if rx_len < 32 {
                rx_len = 64;
            }
        }
        Profile::Aging => {
            c.max_steps = 200 + t.choose(1800);
            c.max_conns = 1 + t.choose(12);
            c.w.pub0 = 12;
            c.w.pub1 = 20;
            c.w.pub2 = 14;
            c.w.sub = 6;
            c.w.unsub = 5;
            c.w.drop_conn = 2;
            c.w.broker_fault = 1;
            c.p_withhold_ack = [0, 50][t.choose(2) as usize];
            c.p_io_err = [0, 2][t.choose(2) as usize];
            c.p_connack_fault = [0, 20][t.choose(2) as usize];
            c.payload_law = 2 + t.choose(2);
            tx_len = [16usize, 24, 40, 64, 96, 128, 256, 1152, 4096][t.choose(9) as usize];
            if session_expiry == 0 {
                session_expiry = 3600;
            }
        }
        Profile::Invalid => {
            c.w.invalid = 30;
            c.w.pub1 = 8;
            c.w.pub2 = 8;
        }
        Profile::Twin => {}
    }
    // CONNECT must be encodable at least on the first connection for the run to be interesting
    let id_len = c.client_id.len().max(12); // the broker may assign "assigned-N"
    let will_len = c.will.as_ref().map_or(0, |w| w.topic.len() + w.payload.len() + 40);
    let auth_len = c.auth.as_ref().map_or(0, |a| a.0.len() + a.1.len() + 4);
    let need = 40 + id_len + will_len + auth_len;
    if tx_len < need && !t.chance(1, 20) {
        tx_len = need + t.choose(64) as usize;
    }
    // the broker must be able to answer: CONNACK is at least 5 bytes
    if rx_len < 8 {
        rx_len = 8;
    }
    c.rx_len = rx_len;
    c.tx_len = tx_len;
    c.keepalive_s = keepalive_s;
    c.session_expiry = session_expiry;
    c.id_burn = id_burn;
    c
}

#[derive(Copy, Clone, PartialEq, Eq, Debug)]
enum Step {
    Poll,
    Pub0,
    Pub1,
    Pub2,
    Sub,
    Unsub,
    Drive,
    Recv,
    Disconnect,
    DropConn,
    ForgetConn,
    BrokerPub,
    BrokerFault,
    Sleep,
    Invalid,
}

fn pick_step(w: &mut World) -> Step {
    let ow = &w.cfg.w;
    let weights = [
        ow.poll,
        ow.pub0,
        ow.pub1,
        ow.pub2,
        ow.sub,
        ow.unsub,
        ow.drive,
        ow.recv,
        ow.disconnect,
        ow.drop_conn,
        ow.forget_conn,
        ow.broker_pub,
        ow.broker_fault,
        ow.sleep,
        ow.invalid,
    ];
    const STEPS: [Step; 15] = [
        Step::Poll,
        Step::Pub0,
        Step::Pub1,
        Step::Pub2,
        Step::Sub,
        Step::Unsub,
        Step::Drive,
        Step::Recv,
        Step::Disconnect,
        Step::DropConn,
        Step::ForgetConn,
        Step::BrokerPub,
        Step::BrokerFault,
        Step::Sleep,
        Step::Invalid,
    ];
    STEPS[w.tape.weighted(&weights)]
}

pub enum ConnEnd {
    Dead,
    Drop,
    Forget,
    OutOfSteps,
}

pub fn gen_disconnect(w: &mut World) -> DiscSpec {
    match w.tape.choose(5) {
        0 | 1 => DiscSpec { reason: None, props: None },
        2 => DiscSpec { reason: Some([0x00u8, 0x04, 0x80, 0x93][w.tape.choose(4) as usize]), props: None },
        3 => DiscSpec { reason: Some(0x04), props: Some(vec![]) },
        _ => DiscSpec {
            reason: Some(0),
            props: Some(vec![[
                Prop { id: 0x11, val: PVal::U32(5) },
                Prop { id: 0x1F, val: PVal::Str("x".into()) },
                Prop { id: 0x26, val: PVal::Pair("a".into(), "b".into()) },
            ][w.tape.choose(3) as usize]
                .clone()]),
        },
    }
}

pub fn run_connection(conn: &mut Conn<'_, '_>, steps_left: &mut u32) -> ConnEnd {
    loop {
        if with(|w| w.cut) {
            return ConnEnd::OutOfSteps;
        }
        if *steps_left == 0 {
            return ConnEnd::OutOfSteps;
        }
        *steps_left -= 1;
        let burn_now = with(|w| {
            let b = w.cfg.id_burn;
            if (65000..=65535).contains(&b) && !w.burn_done {
                let ep = w.epoch;
                let inflight = w.reqs.iter().filter(|r| r.epoch == ep && !r.invalidated && r.accept == Accept::Accepted && r.qos > 0 && r.id.is_some() && !matches!(r.phase, Phase::Done(_))).count();
                if inflight >= 1 && w.tape.chance(1, 3) {
                    w.burn_done = true;
                    w.probe("identifier_counter_wrapped_with_ops_in_flight");
                    return Some(b);
                }
            }
            None
        });
        if let Some(b) = burn_now {
            if with(|w| w.tape.chance(1, 400)) {
                // the long way, without the hook: refused requests consume identifiers too
                burn_by_refused_requests(conn, b);
                with(|w| w.probe("identifier_wrap_without_hook"));
            } else {
                conn.verif_burn_packet_ids(b);
            }
        }
        let step = with(pick_step);
        let mut res: Option<Res> = None;
        let mut was_disconnect = false;
        match step {
            Step::Poll => res = Some(do_wait(conn, Wait::Poll, None)),
            Step::Recv => res = Some(do_wait(conn, Wait::Recv, None)),
            Step::Drive => res = Some(do_wait(conn, Wait::Drive, None)),
            Step::Pub0 | Step::Pub1 | Step::Pub2 => {
                let q = match step {
                    Step::Pub0 => 0,
                    Step::Pub1 => 1,
                    _ => 2,
                };
                let spec = with(|w| gen_publish(w, q));
                let r = do_publish(conn, &spec);
                // A cancelled QoS 0 publish is documented as not cancel-safe: the application
                // must not keep using the connection.
                res = Some(r);
            }
            Step::Sub => {
                let spec = with(gen_subscribe);
                let size = 8 + crate::codec::props_len(&spec.props) + spec.filters.iter().map(|f| f.filter.len() + 3).sum::<usize>();
                if !with(|w| guard_room(w, size)) {
                    continue;
                }
                res = Some(do_subscribe(conn, &spec));
            }
            Step::Unsub => {
                let spec = with(gen_unsubscribe);
                let size = 8 + crate::codec::props_len(&spec.props) + spec.filters.iter().map(|f| f.len() + 2).sum::<usize>();
                if !with(|w| guard_room(w, size)) {
                    continue;
                }
                res = Some(do_unsubscribe(conn, &spec));
            }
            Step::Disconnect => {
                // avoidance guard for the open finding "disconnect starts inside another packet"
                let inside = with(|w| {
                    let c = &w.conns[w.cur];
                    w.cfg.guards && c.parsed != c.wire.len()
                });
                if inside {
                    continue;
                }
                // now and then the transmit arena is first filled to within 0..5 bytes by one
                // more unacknowledged QoS 1 publish: DISCONNECT must not depend on free space
                if with(|w| !w.guards_arena() && w.tape.chance(1, 6)) {
                    let spec = with(|w| {
                        let ep = w.epoch;
                        let used: usize = w
                            .reqs
                            .iter()
                            .filter(|r| r.epoch == ep && !r.invalidated && r.accept != Accept::NotAccepted && r.qos > 0 && matches!(r.phase, Phase::AwaitAck))
                            .map(|r| r.first_tx.as_ref().map_or_else(|| crate::codec::encode(&r.expected).len() + 2, |b| b.len()))
                            .sum();
                        let free = w.cfg.tx_len.saturating_sub(used);
                        let want = free.saturating_sub(w.tape.choose(6) as usize);
                        let mut s = gen_publish(w, 1);
                        s.props.clear();
                        s.correlate = None;
                        s.payload_fails = false;
                        let head = 2 + 2 + s.topic.len() + 2 + 1; // fixed header (short form), topic, id, property length
                        let head = if want > 127 + 2 { head + 1 } else { head };
                        if s.qos == 1 && want > head && want < 60_000 {
                            s.payload = vec![0x44; want - head];
                            w.probe("arena_filled_before_disconnect");
                            Some(s)
                        } else {
                            None
                        }
                    });
                    if let Some(s) = spec {
                        let r = do_publish(conn, &s);
                        // (a QoS 0 publish - after a downgrade - that was cut short means the
                        // application gives the connection up, as everywhere else)
                        if r.is_fatal() || !conn.is_connected() || with(|w| w.qos0_cancelled) {
                            res = Some(r);
                            was_disconnect = false;
                        }
                    }
                }
                if res.is_some() {
                    // the fill publish ended the connection: judged like any other publish
                } else {
                let spec = with(gen_disconnect);
                let r = do_disconnect(conn, &spec);
                if r == Res::BufferTooSmall && spec.props.is_none() {
                    // a DISCONNECT without properties has its own storage: it never lacks room
                    with(|w| {
                        w.violate(
                            "C11",
                            "plain-disconnect-refused/BufferTooSmall".into(),
                            "disconnect() without properties returned BufferTooSmall and left the handle connected".into(),
                        )
                    });
                }
                // after disconnect() the handle is dead whatever the outcome, also when a
                // contract-violating transport made a write return Ok(0)
                was_disconnect = r != Res::Cancelled;
                if r == Res::Cancelled && with(|w| w.cfg.guards) {
                    // guard: do not continue on a connection whose DISCONNECT was cut short
                    return ConnEnd::Drop;
                }
                res = Some(r);
                }
            }
            Step::DropConn => return ConnEnd::Drop,
            Step::ForgetConn => return ConnEnd::Forget,
            Step::BrokerPub => {
                with(|w| {
                    let cur = w.cur;
                    broker::broker_publish(w, cur);
                });
            }
            Step::BrokerFault => {
                with(|w| {
                    let cur = w.cur;
                    broker::broker_fault(w, cur);
                });
            }
            Step::Sleep => with(|w| {
                let gap = [1, US_PER_MS, 100 * US_PER_MS, US_PER_S, 7 * US_PER_S, 70 * US_PER_S][w.tape.choose(6) as usize];
                w.kind(46);
                w.log(|| format!("app: does something else for {} us", gap));
                w.app_waiting_since = None;
                clock::advance_to(clock::now() + gap);
                w.run_due_events();
            }),
            Step::Invalid => {
                res = Some(crate::invalid::invalid_probe(conn));
            }
        }
        // A cancelled QoS 0 publish is documented as not cancel-safe: the application must not
        // keep using the connection.
        if with(|w| std::mem::replace(&mut w.qos0_cancelled, false)) {
            with(|w| w.probe("qos0_cancelled_then_dropped"));
            return ConnEnd::Drop;
        }
        let live = conn.is_connected();
        if let Some(r) = &res {
            let fatal = r.is_fatal() || (was_disconnect && !matches!(r, Res::InvalidRequest | Res::PacketTooLarge | Res::BufferTooSmall));
            if fatal {
                dead_handle_probe(conn);
                return ConnEnd::Dead;
            }
            if !live {
                // the only non-fatal result that may close the connection: a mandatory
                // acknowledgement does not fit the broker's Maximum Packet Size (C14)
                // (after disconnect() the handle may be closed whatever it returned)
                // (publish/subscribe/unsubscribe drain older outbound work first: they meet an
                // acknowledgement that does not fit just as poll does)
                let ack_pending = with(|w| {
                    let c = &w.conns[w.cur];
                    c.max_packet_size.is_some_and(|m| m < 6) && (!c.owed_acks.is_empty() || !c.carry_acks.is_empty())
                });
                let ok = matches!(r, Res::PacketTooLarge) && (matches!(step, Step::Poll | Step::Recv | Step::Drive | Step::Invalid) || ack_pending) || matches!(step, Step::Disconnect) || with(|w| w.op_label == "disconnect");
                if !ok {
                    with(|w| {
                        w.violate(
                            "C11",
                            format!("died-silently/after={}", r.name()),
                            format!("handle is dead after a non-fatal result {}", r.name()),
                        )
                    });
                } else {
                    with(|w| w.probe("closed_because_ack_too_large"));
                }
                dead_handle_probe(conn);
                return ConnEnd::Dead;
            }
        }
    }
}

/// C16: switch all faults off and let a prompt, conformant broker answer everything.
/// Returns true if the connection stayed up and the session quiesced.
pub fn benign_drain(conn: &mut Conn<'_, '_>) -> bool {
    let (p, moved0, limit_bytes) = with(|w| {
        w.benign = true;
        let cur = w.cur;
        // the broker becomes prompt: everything still under way to this connection arrives now,
        // whatever was addressed to dead connections is gone
        let evs = std::mem::take(&mut w.events);
        for ((_, seq), ev) in evs {
            let keep = match &ev {
                world::Event::Deliver { conn, .. } | world::Event::Close { conn } => *conn == cur,
                world::Event::Unblock { .. } | world::Event::ReleaseHeld { .. } => false,
            };
            if keep {
                w.events.insert((clock::now(), seq), ev);
            }
        }
        w.conns[cur].write_blocked_until = 0; // the link is fast again
        w.release_held(cur); // ... and the peer no longer stalls
        broker::release_withheld(w, cur);
        let ep = w.epoch;
        let pending = w.reqs.iter().filter(|r| r.epoch == ep && !r.invalidated && r.accept != Accept::NotAccepted && r.qos > 0 && !matches!(r.phase, Phase::Done(_))).count();
        let owed = w.conns[cur].owed_acks.len() + w.conns[cur].carry_acks.len();
        // broker messages still in flight, scheduled, or already in the socket but unread
        let inbound = w.bmsgs.iter().filter(|m| m.state != 2).count() + w.events.len() + w.conns[cur].rx_items.len();
        let p = (pending + owed + inbound) as u64;
        w.probe("drain_started");
        if p > 0 {
            w.probe("drain_with_pending");
        }
        w.log(|| format!("---- benign continuation starts, P = {p}"));
        (p, w.conns[cur].bytes_moved, (p + 2) * (w.cfg.tx_len as u64 + w.cfg.rx_len as u64 + 16))
    });
    let bound = 4 * p + 16;
    let mut returns = 0u64;
    let opts = ExecOpts { cancellable: true, idle_cancel: true, budget_us: None, timer_is_idle: true };
    loop {
        let r = do_wait(conn, Wait::Poll, Some(opts));
        match r {
            Res::Cancelled => break,
            Res::OkNone | Res::OkMsg(_) | Res::Rejected(_) => returns += 1,
            _ => return false,
        }
        if returns > bound {
            with(|w| {
                w.violate(
                    "C16",
                    "drain-exceeds-step-bound".into(),
                    format!("more than {bound} poll() returns needed to drain P = {p} pending items"),
                )
            });
            return false;
        }
        if with(|w| w.cut) {
            return false;
        }
    }
    let q = conn.session().is_publish_quiescent();
    with(|w| {
        let cur = w.cur;
        let moved = w.conns[cur].bytes_moved - moved0;
        if moved > limit_bytes {
            w.violate(
                "C16",
                "drain-exceeds-byte-bound".into(),
                format!("{moved} bytes moved to drain P = {p} pending items (bound {limit_bytes})"),
            );
        }
        let ep = w.epoch;
        if !w.ids_ambiguous {
            let stuck: Vec<(u32, &'static str)> = w
                .reqs
                .iter()
                .filter(|r| r.epoch == ep && !r.invalidated && !r.ambiguous && r.accept == Accept::Accepted && r.qos > 0 && !matches!(r.phase, Phase::Done(_)))
                .map(|r| {
                    (
                        r.tag,
                        match (r.kind, r.qos, r.phase) {
                            (ReqKind::Pub, 1, _) => "pub1",
                            (ReqKind::Pub, _, Phase::Release) => "pub2-release",
                            (ReqKind::Pub, _, _) => "pub2-publish",
                            (ReqKind::Sub, _, _) => "sub",
                            _ => "unsub",
                        },
                    )
                })
                .collect();
            if let Some((tag, kind)) = stuck.first() {
                w.violate(
                    "C16",
                    format!("operation-never-completed/{kind}"),
                    format!("accepted request tag {tag} ({kind}) is still incomplete after the benign drain; all stuck: {:?}", stuck),
                );
            } else if !q && !w.session_ambiguous {
                w.violate(
                    "C16",
                    "not-quiescent-after-drain".into(),
                    "is_publish_quiescent() is false although every accepted operation completed and nothing is owed".into(),
                );
            }
        }
        if !w.conns[cur].owed_acks.is_empty() {
            let o = w.conns[cur].owed_acks[0];
            w.violate(
                "C16",
                format!("owed-ack-never-sent/{}", crate::codec::type_name_of(o.0)),
                format!("acknowledgement {:?} is still owed after the benign drain", o),
            );
        }
        w.probe("drain_quiesced");
    });
    true
}

/// C12 tail: after the drain the session must be fully usable.
pub fn usability_probe(conn: &mut Conn<'_, '_>) {
    let tx = with(|w| w.cfg.tx_len);
    if tx >= 48 {
        let spec = PubSpec {
            tag: with(|w| {
                let t = w.next_tag;
                w.next_tag += 1;
                t
            }),
            topic: String::new(),
            payload: vec![0x42; 3],
            qos: 1,
            retain: false,
            props: vec![],
            correlate: None,
            payload_fails: false,
        };
        let spec = PubSpec { topic: format!("t{}", spec.tag), ..spec };
        let (mps, maxq0) = with(|w| (w.conns[w.cur].max_packet_size, w.cfg.downgrade && w.conns[w.cur].max_qos_present && w.conns[w.cur].max_qos == 0));
        if mps.is_some_and(|m| m < 32) || maxq0 {
            return;
        }
        let r = do_publish(conn, &spec);
        if r != Res::OkOp {
            with(|w| {
                if !w.ids_ambiguous {
                    w.violate(
                        "C12",
                        format!("probe-publish-refused/{}", r.name()),
                        format!("a small QoS 1 publish on the reconnected, drained session returned {}", r.name()),
                    )
                }
            });
            return;
        }
        let opts = ExecOpts { cancellable: true, idle_cancel: true, budget_us: None, timer_is_idle: true };
        for _ in 0..8 {
            if do_wait(conn, Wait::Poll, Some(opts)) == Res::Cancelled {
                break;
            }
        }
        with(|w| {
            let done = matches!(w.reqs[w.req_by_tag[&spec.tag]].phase, Phase::Done(_));
            if !done && !w.ids_ambiguous {
                w.violate("C12", "probe-publish-not-completed".into(), "QoS 1 probe publish did not complete on the reconnected session".into());
            }
        });
    }
    // inbound (not at QoS 2 while the client still remembers QoS 2 exchanges of a broker session
    // that was lost without the client seeing the CONNACK that said so: its table may be full of
    // identifiers no PUBREL will ever release, and MQTT gives it no way to know)
    let sent = with(|w| {
        let cur = w.cur;
        let before = w.bmsgs.len();
        let orphans = !w.client_qos2_pending.is_empty() || w.client_qos2_ambiguous;
        if orphans {
            w.force_inbound_qos = Some(1);
        }
        let ok = broker::broker_publish(w, cur);
        w.force_inbound_qos = None;
        ok && w.bmsgs.len() > before
    });
    if sent {
        let opts = ExecOpts { cancellable: true, idle_cancel: true, budget_us: None, timer_is_idle: true };
        let n0 = with(|w| w.delivered.len());
        for _ in 0..6 {
            if do_wait(conn, Wait::Poll, Some(opts)) == Res::Cancelled {
                break;
            }
        }
        with(|w| {
            if w.delivered.len() == n0 {
                w.violate("C12", "probe-inbound-not-delivered".into(), "an inbound publish was not delivered on the reconnected session".into());
            }
        });
    }
}

/// C12 "leaves the session fully usable": the keep-alive works on the reconnected session too.
/// The application waits in poll() for one keep-alive period; the prompt broker answers every
/// PINGREQ. A PINGREQ must go out and the connection must stay up.
fn keepalive_probe(conn: &mut Conn<'_, '_>) {
    if !conn.is_connected() || with(|w| w.cut || w.ids_ambiguous) {
        return;
    }
    let Some(k) = with(|w| crate::broker::keepalive_eff(w, w.cur)).filter(|k| *k > 0) else { return };
    let start = clock::now();
    let n0 = with(|w| w.conns[w.cur].packets.len());
    let until = start + k as u64 * clock::US_PER_S + clock::US_PER_S;
    with(|w| w.probe("final_keepalive_probe"));
    let mut died = None;
    for _ in 0..64 {
        let now = clock::now();
        if now >= until {
            break;
        }
        let opts = ExecOpts { cancellable: true, idle_cancel: true, budget_us: Some(until - now), timer_is_idle: false };
        let r = do_wait(conn, Wait::Poll, Some(opts));
        if r.is_fatal() || !conn.is_connected() {
            died = Some(r.name());
            break;
        }
    }
    with(|w| {
        if w.cut {
            return;
        }
        let cur = w.cur;
        let pinged = w.conns[cur].packets[n0.min(w.conns[cur].packets.len())..].iter().any(|p| matches!(p.pkt, crate::codec::Packet::PingReq));
        if let Some(why) = died {
            w.violate("C12", format!("probe-keepalive/connection-lost/{why}"), format!("the reconnected session lost its connection to a prompt broker while idle for one keep-alive period ({k} s)"));
        } else if !pinged {
            w.violate("C12", "probe-keepalive/no-pingreq-within-keepalive".into(), format!("the reconnected, idle session sent no PINGREQ within its keep-alive of {k} s (+1 s)"));
        }
    });
}

pub fn final_phase(session: &mut Session<'_>, mut drained: bool) {
    with(|w| {
        w.benign = true;
        if !drained && !w.cut && w.tape.chance(1, 4) {
            w.final_small_rm = Some([1u16, 2, 3][w.tape.choose(3) as usize]);
            w.probe("final_reconnect_with_small_receive_maximum");
        }
    });
    let mut attempts = 0;
    while !drained && attempts < 3 {
        attempts += 1;
        if with(|w| w.cut) {
            return;
        }
        match do_connect(session, false) {
            ConnectOutcome::Failed(r) => {
                // only configurations in which a CONNECT could be encoded at all are in scope
                let ever_connected = with(|w| w.conns.iter().any(|c| !c.packets.is_empty()));
                let too_small_anyway = with(|w| w.cfg.tx_len < connect_need(w));
                if (!ever_connected || too_small_anyway) && r == Res::BufferTooSmall {
                    with(|w| w.probe("config_cannot_encode_connect"));
                    return;
                }
                with(|w| {
                    let arena = if w.reqs.iter().any(|r| !r.invalidated && r.accept != Accept::NotAccepted && r.qos > 0 && !matches!(r.phase, Phase::Done(_))) {
                        "retained-data"
                    } else {
                        "empty"
                    };
                    w.violate(
                        "C12",
                        format!("reconnect-failed/{}/arena={arena}", r.name()),
                        format!("connect() over a healthy transport to a conformant broker returned {}", r.name()),
                    );
                });
                return;
            }
            ConnectOutcome::Up(mut conn) => {
                with(|w| {
                    w.probe("final_reconnect_ok");
                    // C12: the new transport starts with exactly one complete CONNECT
                    let cur = w.cur;
                    let ok = matches!(w.conns[cur].packets.first().map(|p| &p.pkt), Some(crate::codec::Packet::Connect { .. }));
                    if !ok {
                        w.violate("C12", "first-packet-not-connect".into(), "the new transport does not start with a complete CONNECT".into());
                    }
                });
                drained = benign_drain(&mut conn);
                if drained {
                    usability_probe(&mut conn);
                    keepalive_probe(&mut conn);
                }
                with(|w| close_conn(w, "end of run"));
            }
        }
    }
    if !drained {
        with(|w| {
            if !w.cut {
                w.violate(
                    "C16",
                    "no-quiescence-after-3-benign-reconnects".into(),
                    "the session could not be drained by three benign reconnects".into(),
                )
            }
        });
    }
}

/// Consume `n` identifiers through the public API only: a QoS 1 publish whose payload cannot
/// fit the arena is refused after its identifier was allocated.
fn burn_by_refused_requests(conn: &mut Conn<'_, '_>, n: u32) {
    let huge = vec![0u8; with(|w| w.cfg.tx_len) + 8];
    let opts = ExecOpts { cancellable: false, idle_cancel: true, budget_us: None, timer_is_idle: false };
    with(|w| {
        w.op_label = "publish1";
        w.offered_now.clear();
    });
    let was_benign = with(|w| std::mem::replace(&mut w.benign, true));
    for _ in 0..n {
        let p = minimq::Publication::bytes("burn", &huge[..]).qos(QoS::AtLeastOnce);
        match exec(conn.publish(p), opts) {
            Some(Err(_)) => {}
            _ => break, // accepted or cancelled: stop (cannot happen with a payload larger than the arena)
        }
        if !conn.is_connected() {
            break;
        }
    }
    let dead = !conn.is_connected();
    with(|w| {
        w.benign = was_benign;
        if dead {
            // whatever ended the handle here was consumed by a refused request, not judged
            w.expect = None;
        }
    });
}

/// C07: fill up to 16 *consecutive* identifiers with long-lived operations (QoS 2 exchanges
/// waiting for PUBCOMP, then SUBSCRIBE/UNSUBSCRIBE waiting for their acks), then move the counter
/// one full cycle so that the next allocations start at the first of them.
fn dense_identifier_prefix(conn: &mut Conn<'_, '_>) {
    if with(|w| w.conns[w.cur].max_qos < 2) {
        return;
    }
    let (n2, n1, off) = with(|w| {
        w.probe("dense_identifier_block");
        w.hold_pubcomp = true;
        (1 + w.tape.choose(8), w.tape.choose(8), w.tape.choose(3))
    });
    let opts = ExecOpts { cancellable: true, idle_cancel: true, budget_us: None, timer_is_idle: true };
    // half of the blocks straddle the wrap: one of the long-lived operations owns 65535, so the
    // scan for a free identifier has to step from 65535 over 0 to 1
    let straddle = with(|w| {
        if w.tape.chance(1, 2) {
            let already = if (65000..=65535).contains(&w.cfg.id_burn) { 0 } else { w.cfg.id_burn };
            let first = 65535 - w.tape.choose(n2 + n1);
            w.probe("dense_identifier_block_straddles_wrap");
            Some((first - 1).saturating_sub(already))
        } else {
            None
        }
    });
    if let Some(pre) = straddle {
        if pre > 0 {
            conn.verif_burn_packet_ids(pre);
        }
    }
    let mut allocated = 0u32;
    for _ in 0..n2 {
        let spec = with(|w| {
            let mut s = gen_publish(w, 2);
            s.payload.truncate(4);
            s.props.clear();
            s.correlate = None;
            s.payload_fails = false;
            s
        });
        if spec.qos != 2 || do_publish(conn, &spec) != Res::OkOp {
            break;
        }
        allocated += 1;
        for _ in 0..4 {
            if do_wait(conn, Wait::Poll, Some(opts)) == Res::Cancelled {
                break;
            }
        }
    }
    with(|w| w.hold_acks = true);
    for i in 0..n1 {
        let r = if i % 2 == 0 {
            let mut spec = with(gen_subscribe);
            spec.filters.truncate(1);
            spec.props.clear();
            do_subscribe(conn, &spec)
        } else {
            let mut spec = with(gen_unsubscribe);
            spec.filters.truncate(1);
            spec.props.clear();
            do_unsubscribe(conn, &spec)
        };
        if r != Res::OkOp {
            break;
        }
        allocated += 1;
    }
    with(|w| {
        w.hold_acks = false;
        w.hold_pubcomp = false;
        w.burn_done = true;
    });
    if conn.is_connected() && allocated > 0 {
        // one full cycle (65535 identifiers) minus what was allocated, give or take
        conn.verif_burn_packet_ids(65535 - allocated + off);
        with(|w| w.probe("identifier_counter_wrapped_with_ops_in_flight"));
    }
}

/// C07: an operation of one kind keeps identifier X (a SUBSCRIBE awaiting SUBACK, or a QoS 2
/// exchange awaiting PUBCOMP); an operation of the *other* kind gets an identifier a power-of-two
/// multiple away from X and completes; then the counter goes round once so that the next
/// allocation starts at X. Bookkeeping that summarises identifiers (bitmaps, hashes, sorted
/// lists, per-kind tables) must still know that X is taken.
fn alias_identifier_prefix(conn: &mut Conn<'_, '_>) {
    if with(|w| w.conns[w.cur].max_qos < 2) {
        return;
    }
    let opts = ExecOpts { cancellable: true, idle_cancel: true, budget_us: None, timer_is_idle: true };
    let small = |w: &mut World, q: u8| {
        let mut s = gen_publish(w, q);
        s.payload.truncate(4);
        s.props.clear();
        s.correlate = None;
        s.payload_fails = false;
        s
    };
    let drain = |conn: &mut Conn<'_, '_>| {
        for _ in 0..6 {
            let r = do_wait(conn, Wait::Poll, Some(opts));
            if r == Res::Cancelled || r.is_fatal() {
                break;
            }
        }
    };
    let (variant, d) = with(|w| {
        w.probe("identifier_alias_block");
        let m = [8u32, 16, 32, 64, 128, 256, 1024, 4096][w.tape.choose(8) as usize];
        (w.tape.choose(2), m * (1 + w.tape.choose(3)))
    });
    // the long-lived owner of X
    let ok = if variant == 0 {
        with(|w| w.hold_acks = true);
        let mut spec = with(gen_subscribe);
        spec.filters.truncate(1);
        spec.props.clear();
        let r = do_subscribe(conn, &spec);
        drain(conn);
        with(|w| w.hold_acks = false);
        r == Res::OkOp
    } else {
        with(|w| w.hold_pubcomp = true);
        let spec = with(|w| small(w, 2));
        let r = spec.qos == 2 && do_publish(conn, &spec) == Res::OkOp;
        drain(conn);
        with(|w| w.hold_pubcomp = false);
        r
    };
    if !ok || !conn.is_connected() {
        return;
    }
    conn.verif_burn_packet_ids(d - 1);
    // the alias: the other kind of operation, d identifiers further on, runs to completion
    let spec = with(|w| small(w, if variant == 0 { 2 } else { 1 }));
    if spec.qos == 0 || do_publish(conn, &spec) != Res::OkOp {
        return;
    }
    drain(conn);
    drain(conn);
    if !conn.is_connected() {
        return;
    }
    // once round: the next allocation starts at X
    conn.verif_burn_packet_ids(65534 - d);
    with(|w| {
        w.burn_done = true;
        w.probe("identifier_counter_wrapped_onto_aliased_identifier");
    });
    let spec = with(|w| small(w, 1));
    if spec.qos == 1 {
        let _ = do_publish(conn, &spec);
        drain(conn);
    }
}

/// C06: after one acknowledged publish, QoS 2 exchanges are opened one after the other, each
/// receiving its PUBREC at once while every PUBCOMP is withheld, until the client refuses: the
/// release list fills up with exchanges awaiting PUBCOMP, and one more must be refused, not dropped.
fn release_saturation_prefix(conn: &mut Conn<'_, '_>) {
    let opts = ExecOpts { cancellable: true, idle_cancel: true, budget_us: None, timer_is_idle: true };
    let small = |w: &mut World, q: u8| {
        let mut s = gen_publish(w, q);
        s.payload.truncate(4);
        s.props.clear();
        s.correlate = None;
        s.payload_fails = false;
        s
    };
    if with(|w| w.conns[w.cur].max_qos < 2) {
        return; // (a downgraded QoS 0 publish is not cancel-safe: not part of this prefix)
    }
    with(|w| w.probe("release_list_saturation"));
    let first = with(|w| small(w, 1));
    if first.qos != 1 || do_publish(conn, &first) != Res::OkOp {
        return;
    }
    for _ in 0..6 {
        if do_wait(conn, Wait::Poll, Some(opts)) == Res::Cancelled {
            break;
        }
    }
    with(|w| w.hold_pubcomp = true);
    let n = 9 + with(|w| w.tape.choose(6));
    for _ in 0..n {
        let spec = with(|w| small(w, 2));
        if spec.qos != 2 {
            break; // the arena guard turned it into a QoS 0 publish: not part of this prefix
        }
        let r = do_publish(conn, &spec);
        if r.is_fatal() || !conn.is_connected() {
            break;
        }
        for _ in 0..6 {
            let r = do_wait(conn, Wait::Poll, Some(opts));
            if r == Res::Cancelled || r.is_fatal() {
                break;
            }
        }
        if !conn.is_connected() {
            break;
        }
    }
    with(|w| w.hold_pubcomp = false);
}

/// C12/C04: the broker uses the whole Receive Maximum the client advertised for QoS 2 messages
/// and its PUBRELs do not arrive on this connection: the client's inbound QoS 2 table is exactly
/// full when the connection is lost.
fn inbound_qos2_saturation_prefix(conn: &mut Conn<'_, '_>) {
    let n = with(|w| w.client_receive_max.unwrap_or(8).min(16));
    let opts = ExecOpts { cancellable: true, idle_cancel: true, budget_us: None, timer_is_idle: true };
    with(|w| {
        w.probe("inbound_qos2_saturation");
        w.hold_pubrel = true;
        w.force_inbound_qos = Some(2);
    });
    for _ in 0..n {
        let sent = with(|w| {
            let cur = w.cur;
            broker::broker_publish(w, cur)
        });
        if !sent {
            break;
        }
        for _ in 0..6 {
            let r = do_wait(conn, Wait::Poll, Some(opts));
            if r == Res::Cancelled || r.is_fatal() {
                break;
            }
        }
        if !conn.is_connected() {
            break;
        }
    }
    with(|w| {
        w.hold_pubrel = false;
        w.force_inbound_qos = None;
    });
}

/// C14/C04: an inbound QoS 1/2 publish is consumed, the transport dies inside the acknowledgement
/// (the broker never gets it and will send the PUBLISH again), and the next CONNACK grants a
/// Maximum Packet Size around the size of an acknowledgement.
fn ack_lost_prefix(conn: &mut Conn<'_, '_>) {
    let opts = ExecOpts { cancellable: true, idle_cancel: true, budget_us: None, timer_is_idle: true };
    let sent = with(|w| {
        w.probe("ack_lost_with_the_connection");
        w.force_inbound_qos = Some(1 + w.tape.choose(2) as u8);
        let cur = w.cur;
        let ok = broker::broker_publish(w, cur);
        w.force_inbound_qos = None;
        if ok {
            w.die_after_accepting = Some(1 + w.tape.choose(3) as usize);
        }
        ok
    });
    if !sent {
        return;
    }
    for _ in 0..8 {
        let r = do_wait(conn, Wait::Poll, Some(opts));
        if r == Res::Cancelled || r.is_fatal() || !conn.is_connected() {
            break;
        }
    }
    with(|w| {
        if w.die_after_accepting.take().is_none() {
            w.force_next_mps = Some([2u32, 4, 5, 200][w.tape.choose(4) as usize]);
        }
    });
}

pub fn scenario_general(session: &mut Session<'_>) {
    let (max_conns, mut steps_left, burn) = with(|w| (w.cfg.max_conns, w.cfg.max_steps, w.cfg.id_burn));
    let mut drained = false;
    for ci in 0..max_conns {
        if steps_left == 0 || with(|w| w.cut) {
            break;
        }
        steps_left = steps_left.saturating_sub(1);
        match do_connect(session, true) {
            ConnectOutcome::Failed(_) => continue,
            ConnectOutcome::Up(mut conn) => {
                // identifier counter: either start next to the 16-bit wrap, or (burn in
                // 65000..=65535) jump almost a full cycle in the middle of the connection so that
                // new identifiers land on those of operations still in flight
                if burn > 0 && !(65000..=65535).contains(&burn) && conn.connect_event() == minimq::ConnectEvent::Connected {
                    conn.verif_burn_packet_ids(burn);
                    with(|w| w.probe("identifier_counter_advanced"));
                }
                if ci == 0 && with(|w| w.cfg.profile == Profile::IdWrap && w.cfg.dense_ids) {
                    dense_identifier_prefix(&mut conn);
                } else if ci == 0 && with(|w| w.cfg.profile == Profile::IdWrap && !(65000..=65535).contains(&burn) && w.tape.chance(1, 3)) {
                    alias_identifier_prefix(&mut conn);
                }
                if ci == 0 && with(|w| w.cfg.profile == Profile::Quota && w.tape.chance(1, 6)) {
                    release_saturation_prefix(&mut conn);
                }
                let mut lose_now = false;
                if ci == 0 && with(|w| matches!(w.cfg.profile, Profile::Limits | Profile::Inbound) && w.tape.chance(1, 8)) {
                    ack_lost_prefix(&mut conn);
                } else if ci == 0 && with(|w| matches!(w.cfg.profile, Profile::Inbound | Profile::Sessions) && w.tape.chance(1, 8)) {
                    inbound_qos2_saturation_prefix(&mut conn);
                    // half of the time the connection is lost right now, with the table full
                    lose_now = with(|w| w.tape.chance(1, 2));
                }
                let end = if lose_now && conn.is_connected() {
                    ConnEnd::Drop
                } else if !conn.is_connected() {
                    // the connection died inside one of the prefixes above
                    dead_handle_probe(&mut conn);
                    ConnEnd::Dead
                } else {
                    run_connection(&mut conn, &mut steps_left)
                };
                let last = matches!(end, ConnEnd::OutOfSteps) || ci + 1 == max_conns;
                match end {
                    ConnEnd::Forget => {
                        with(|w| {
                            w.fault("handle_forgotten");
                            close_conn(w, "mem::forget")
                        });
                        core::mem::forget(conn);
                    }
                    ConnEnd::Dead => {
                        with(|w| close_conn(w, "dead handle dropped"));
                        drop(conn);
                    }
                    ConnEnd::Drop => {
                        with(|w| {
                            w.fault("handle_dropped_live");
                            close_conn(w, "dropped")
                        });
                        drop(conn);
                    }
                    ConnEnd::OutOfSteps => {
                        if last && !with(|w| w.cut) {
                            drained = benign_drain(&mut conn);
                            if drained {
                                with(|w| w.probe("drained_on_live_connection"));
                            }
                        }
                        with(|w| close_conn(w, "end of program"));
                        drop(conn);
                        if !drained {
                            break;
                        }
                        // exercise the reconnect path as well
                        drained = false;
                        break;
                    }
                }
            }
        }
    }
    if !with(|w| w.cut) {
        final_phase(session, drained);
    }
    // session-level checks that do not need a connection
    check_handles(session);
    final_wire_checks();
}

/// End-of-run checks over the recorded history.
pub fn final_wire_checks() {
    with(|w| {
        // C19/C06/C14: nothing of a refused request ever reached a wire — checked online in
        // broker::on_retained_class. Here: no transport carries bytes after an incomplete tail
        // (the parser would have failed) and QoS 0 publishes were sent at most once.
        for c in 0..w.conns.len() {
            let conn = &w.conns[c];
            if conn.parsed != conn.wire.len() {
                w.stats.probes.entry("transport_ended_inside_packet").and_modify(|v| *v += 1).or_insert(1);
            }
        }
        w.sim_time_max = clock::now();
    });
}

/// Build a `Session` from the run's configuration and hand it to `f`.
pub fn with_session<R>(cfg: &RunCfg, f: impl FnOnce(&mut Session<'_>) -> R) -> R {
    let mut rx = vec![0u8; cfg.rx_len];
    let mut tx = vec![0u8; cfg.tx_len];
    let will_props: Vec<Property<'_>> = cfg.will.iter().flat_map(|w| w.props.iter()).map(to_minimq).collect();
    let mut b = ConfigBuilder::new(Buffers::new(&mut rx, &mut tx));
    // the six builder calls in a configuration-dependent order: they must commute
    let mut order = [0u8, 1, 2, 3, 4, 5];
    let mut h = crate::util::mix(crate::util::mix(cfg.keepalive_s as u64, cfg.session_expiry as u64), (cfg.rx_len * 31 + cfg.tx_len) as u64);
    for i in (1..6).rev() {
        order.swap(i, (h % (i as u64 + 1)) as usize);
        h /= 11;
    }
    for step in order {
        b = match step {
            0 => b.keepalive_interval(cfg.keepalive_s),
            1 => b.session_expiry_interval(cfg.session_expiry),
            2 if !cfg.client_id.is_empty() => b.client_id(&cfg.client_id).expect("client id fits"),
            3 if cfg.downgrade => b.autodowngrade_qos(),
            4 => match &cfg.will {
                Some(wc) => {
                    let mut will = minimq::Will::new(&wc.topic, &wc.payload, &will_props).expect("will config valid");
                    let q = |v: u8| match v {
                        0 => QoS::AtMostOnce,
                        1 => QoS::AtLeastOnce,
                        _ => QoS::ExactlyOnce,
                    };
                    // the builder calls commute: try different orders
                    match wc.build_order {
                        0 => {
                            will = will.qos(q(wc.qos));
                            if wc.retain {
                                will = will.retained();
                            }
                        }
                        1 => {
                            if wc.retain {
                                will = will.retained();
                            }
                            will = will.qos(q(wc.qos));
                        }
                        _ => {
                            will = will.qos(q((wc.qos + 1) % 3));
                            if wc.retain {
                                will = will.retained();
                            }
                            will = will.qos(q(wc.qos));
                        }
                    }
                    b.will(will).expect("will once")
                }
                None => b,
            },
            5 => match &cfg.auth {
                Some((u, p)) => b.auth(u, p).expect("auth once"),
                None => b,
            },
            _ => b,
        };
    }
    let mut session = Session::new(b);
    f(&mut session)
}

pub fn build_and_run(profile: Profile) {
    let cfg = with(|w| w.cfg.clone());
    let _ = profile;
    with_session(&cfg, |session| scenario_general(session));
    let _ = world::IO_CALLS_PER_POLL_LIMIT;
}
