//! C08: arbitrary inbound bytes delivered through the transport, before and after CONNACK, into a
//! session with operations in flight. The oracle is the reference classifier in `codec`.

use crate::app::*;
use crate::codec::{self, DecErr, Dir, PVal, Packet, Prop};
use crate::run::{self, with_session};
use crate::world::{self, with, Delivered, Event, RxMeta, World};

#[derive(Debug, Clone)]
enum Exp {
    /// a valid packet: the poll that consumes it returns one of these
    Silent(&'static str),          // OkNone (or Rejected for a failing ack)
    Deliver(Box<Delivered>),       // OkMsg with exactly these values
    MaybeDeliver(Box<Delivered>),  // valid PUBLISH whose delivery the model does not predict (QoS 2 duplicate id)
    BrokerDisconnect,              // Disconnected
    Invalid(String),               // InvalidPacket required (class in the string)
    InvalidOrEof,                  // stream ends inside the packet
    Open(String),                  // outcome left open by the property
}

const LISTED: &str = "listed";

fn classify_err(e: &DecErr) -> Option<String> {
    // Some(class) = a malformation the property lists; None = left open
    match e {
        DecErr::BadVarint => Some("bad-varint".into()),
        DecErr::ReservedType(_) => Some("reserved-type".into()),
        DecErr::WrongDirection(_) => Some("client-only-type".into()),
        DecErr::BadFlags { typ: 3, .. } => None, // DUP on QoS 0: minimq is lenient, MQTT says malformed; left open
        DecErr::BadFlags { .. } => Some("illegal-flags".into()),
        // the Connect Acknowledge Flags of a CONNACK are flags too: reserved bits 7..1 set
        DecErr::Other(w) if w == "reserved connack flag bits" => Some("illegal-flags-connack".into()),
        DecErr::BadQos => Some("qos3".into()),
        DecErr::Truncated(w) if *w == "prop" || *w == "property block" || *w == "property length" || *w == "varint" => None,
        DecErr::Truncated(_) => Some("field-past-packet".into()),
        DecErr::Trailing(_) => Some("trailing-garbage".into()),
        DecErr::BadUtf8(w) if *w == "topic" => Some("bad-utf8-topic".into()),
        _ => None,
    }
}

/// Walk the byte stream the way a strict MQTT 5 endpoint would.
fn walk(bytes: &[u8], rx_len: usize, pre_connack: bool) -> Vec<Exp> {
    let mut out = Vec::new();
    let mut pos = 0;
    let mut qos2_seen: Vec<u16> = Vec::new();
    while pos < bytes.len() {
        let rest = &bytes[pos..];
        let total = match codec::frame(rest) {
            Ok(t) => t,
            Err(DecErr::Incomplete) => {
                out.push(Exp::InvalidOrEof);
                return out;
            }
            Err(_) => {
                // bad length field. An implementation may read the whole (leniently sized)
                // packet before it validates the length encoding: the verdict is certain only
                // if the stream does not end before that.
                let mut v = 0usize;
                let mut used = 0;
                for (i, x) in rest[1..].iter().take(4).enumerate() {
                    v |= ((x & 0x7F) as usize) << (7 * i);
                    used = i + 1;
                    if x & 0x80 == 0 {
                        break;
                    }
                }
                let unterminated = used == 4 && rest[4] & 0x80 != 0;
                if unterminated {
                    out.push(if rest.len() >= 6 { Exp::Invalid("bad-varint".into()) } else { Exp::InvalidOrEof });
                } else if rest.len() >= 1 + used + v || 1 + used + v > rx_len {
                    out.push(Exp::Invalid("bad-varint".into()));
                } else {
                    out.push(Exp::InvalidOrEof);
                }
                return out;
            }
        };
        if total > rx_len {
            // larger than the receive buffer: known as soon as the header is complete
            out.push(Exp::Invalid("larger-than-rx-buffer".into()));
            return out;
        }
        if rest.len() < total {
            out.push(Exp::InvalidOrEof);
            return out;
        }
        let raw = &rest[..total];
        pos += total;
        match codec::decode(raw, Dir::ServerToClient) {
            Err(e) => {
                match classify_err(&e) {
                    Some(c) => out.push(Exp::Invalid(c)),
                    None => out.push(Exp::Open(format!("{:?}", e))),
                }
                return out;
            }
            Ok(p) => {
                if pre_connack {
                    // only the first packet matters for connect()
                    match p {
                        Packet::ConnAck { .. } => out.push(Exp::Open("connack".into())),
                        Packet::Disconnect { .. } => out.push(Exp::BrokerDisconnect),
                        _ => out.push(Exp::Open("valid packet other than CONNACK during the handshake".into())),
                    }
                    return out;
                }
                match p {
                    Packet::PingResp => out.push(Exp::Silent("PINGRESP")),
                    Packet::Ack { typ, .. } => out.push(Exp::Silent(codec::type_name_of(typ))),
                    Packet::SubAck { typ, .. } => out.push(Exp::Silent(codec::type_name_of(typ))),
                    Packet::Disconnect { .. } => {
                        out.push(Exp::BrokerDisconnect);
                        return out;
                    }
                    Packet::Publish { qos, retain, topic, id, props, payload, .. } => {
                        if props.iter().any(|p| p.id == 0x23) || topic.is_empty() {
                            out.push(Exp::Open("topic alias".into()));
                            return out;
                        }
                        let d = Box::new(Delivered { topic, payload, qos, retain, props });
                        if qos == 2 {
                            let id = id.unwrap();
                            if qos2_seen.contains(&id) || qos2_seen.len() >= 8 {
                                out.push(Exp::MaybeDeliver(d));
                            } else {
                                qos2_seen.push(id);
                                out.push(Exp::Deliver(d));
                            }
                        } else {
                            out.push(Exp::Deliver(d));
                        }
                    }
                    Packet::ConnAck { .. } => {
                        out.push(Exp::Open("second CONNACK".into()));
                        return out;
                    }
                    Packet::Auth { .. } => {
                        out.push(Exp::Open("AUTH without enhanced authentication".into()));
                        return out;
                    }
                    _ => {
                        out.push(Exp::Open("unexpected".into()));
                        return out;
                    }
                }
            }
        }
    }
    out
}

fn same_delivery(a: &Delivered, b: &Delivered) -> bool {
    let norm = |v: &Vec<Prop>| {
        let mut x = v.clone();
        let key = |p: &Prop| if p.id == 0x26 || p.id == 0x0B { 1 } else { 0 };
        x.sort_by_key(|p| (key(p), if key(p) == 0 { p.id } else { 0 }));
        x
    };
    a.topic == b.topic && a.payload == b.payload && a.qos == b.qos && a.retain == b.retain && norm(&a.props) == norm(&b.props)
}

fn statuses(conn: &Conn<'_, '_>) -> Vec<u8> {
    with(|w| w.reqs.iter().filter_map(|r| r.handle.as_ref().map(|h| (conn.is_pending(h) as u8) | ((conn.is_complete(h) as u8) << 1) | ((conn.is_invalidated(h) as u8) << 2))).collect())
}

fn feed(bytes: &[u8]) {
    with(|w| {
        let cur = w.cur;
        w.raw_mode = true;
        for r in w.reqs.iter_mut() {
            r.ambiguous = true; // raw acknowledgements bypass the ledger
        }
        w.ids_ambiguous = true;
        let len = bytes.len();
        if len > 0 {
            w.schedule(0, Event::Deliver { conn: cur, bytes: bytes.to_vec(), metas: vec![(len, RxMeta::Raw)] });
        }
        w.schedule(0, Event::Close { conn: cur });
        *w.stats.probes.entry("bytes_case").or_insert(0) += 1;
        w.trace_hash = crate::util::mix(w.trace_hash, crate::util::fnv(bytes));
    });
}

fn describe(bytes: &[u8]) -> String {
    let t = bytes.first().map(|b| codec::type_name_of(b >> 4)).unwrap_or("empty");
    t.to_string()
}

fn post_connack_case(bytes: &[u8]) {
    let cfg = with(|w| w.cfg.clone());
    let exps = walk(bytes, cfg.rx_len, false);
    with_session(&cfg, |session| {
        let ConnectOutcome::Up(mut conn) = do_connect(session, false) else { return };
        // operations in flight for acknowledgements to hit: ids 1, 2, 3
        with(|w| w.hold_acks = true);
        for q in [1u8, 2] {
            let spec = with(|w| {
                let mut s = gen_publish(w, q);
                s.payload.truncate(8);
                s.payload_fails = false;
                s
            });
            let _ = do_publish(&mut conn, &spec);
        }
        let spec = with(gen_subscribe);
        let _ = do_subscribe(&mut conn, &spec);
        with(|w| {
            w.hold_acks = false;
            w.expect = None;
        });
        feed(bytes);
        let opts = ExecOpts { cancellable: true, idle_cancel: true, budget_us: None, timer_is_idle: true };
        let mut it = exps.into_iter();
        let mut open = false;
        for _ in 0..200 {
            let before = statuses(&conn);
            let (rx0, n_deliv0) = with(|w| (w.conns[w.cur].rx_consumed, w.delivered.len()));
            let r = do_wait(&mut conn, Wait::Poll, Some(opts));
            let rx1 = with(|w| w.conns[w.cur].rx_consumed);
            with(|w| w.expect = None);
            if r == Res::OkNone && rx1 == rx0 {
                continue; // outbound-only progress (an owed acknowledgement was written)
            }
            if r == Res::Cancelled {
                with(|w| w.violate("C08", "poll-stuck-on-bytes".into(), format!("poll() neither returned nor failed on {}", crate::util::hex(bytes))));
                break;
            }
            if open {
                break;
            }
            let exp = it.next();
            let kind = describe(bytes);
            let mut terminal = r.is_fatal();
            match exp {
                None => {
                    if r != Res::Disconnected {
                        with(|w| w.violate("C08", format!("eof-result/{}", r.name()), format!("stream {} fully consumed, EOF follows, poll returned {}", crate::util::hex(bytes), r.name())));
                    }
                    terminal = true;
                }
                Some(Exp::Silent(what)) => {
                    if !matches!(r, Res::OkNone | Res::Rejected(_)) {
                        with(|w| w.violate("C08", format!("valid-packet-not-accepted/{what}/{}", r.name()), format!("valid {what} in {} made poll return {}", crate::util::hex(bytes), r.name())));
                    }
                }
                Some(Exp::Deliver(d)) => match &r {
                    Res::OkMsg(m) if same_delivery(m, &d) => {}
                    Res::OkMsg(m) => with(|w| w.violate("C08", "publish-values-differ".into(), format!("PUBLISH in {} delivered as {:?}, sent {:?}", crate::util::hex(bytes), m, d))),
                    other => with(|w| w.violate("C08", format!("valid-packet-not-accepted/PUBLISH/{}", other.name()), format!("valid PUBLISH in {} made poll return {}", crate::util::hex(bytes), other.name()))),
                },
                Some(Exp::MaybeDeliver(d)) => match &r {
                    Res::OkMsg(m) if same_delivery(m, &d) => {}
                    Res::OkNone => {}
                    other => with(|w| w.violate("C08", format!("valid-packet-not-accepted/PUBLISH/{}", other.name()), format!("valid PUBLISH in {} made poll return {}", crate::util::hex(bytes), other.name()))),
                },
                Some(Exp::BrokerDisconnect) => {
                    if r != Res::Disconnected {
                        with(|w| w.violate("C08", format!("broker-disconnect-result/{}", r.name()), format!("DISCONNECT in {} made poll return {}", crate::util::hex(bytes), r.name())));
                    }
                    terminal = true;
                }
                Some(Exp::Invalid(class)) => {
                    if r != Res::InvalidPacket {
                        with(|w| w.violate("C08", format!("malformed-accepted/{class}/type={kind}/{}", r.name()), format!("malformed ({class}) bytes {} made poll return {}", crate::util::hex(bytes), r.name())));
                        if class == "larger-than-rx-buffer" {
                            with(|w| w.violate("C14", format!("inbound-larger-than-receive-buffer/{}", r.name()), format!("an inbound packet of {} bytes exceeds the {} byte receive buffer, poll returned {}", bytes.len(), cfg.rx_len, r.name())));
                        }
                    }
                    let after = statuses(&conn);
                    let n_deliv1 = with(|w| w.delivered.len());
                    if after != before || n_deliv1 != n_deliv0 {
                        with(|w| w.violate("C08", format!("malformed-partially-acted-upon/{class}"), format!("malformed bytes {} changed operation handles or delivered a message", crate::util::hex(bytes))));
                    }
                    if conn.is_connected() {
                        with(|w| w.violate("C08", format!("malformed-left-handle-alive/{class}"), format!("handle still live after malformed bytes {}", crate::util::hex(bytes))));
                    }
                    terminal = true;
                }
                Some(Exp::InvalidOrEof) => {
                    if !matches!(r, Res::InvalidPacket | Res::Disconnected) {
                        with(|w| w.violate("C08", format!("truncated-stream-result/{}", r.name()), format!("stream {} ends inside a packet, poll returned {}", crate::util::hex(bytes), r.name())));
                    }
                    terminal = true;
                }
                Some(Exp::Open(_)) => {
                    with(|w| w.probe("bytes_outcome_left_open"));
                    open = true;
                }
            }
            if terminal {
                break;
            }
        }
        LISTED.len();
        with(|w| close_conn(w, "bytes: end"));
    });
}

fn pre_connack_case(bytes: &[u8]) {
    let cfg = with(|w| w.cfg.clone());
    let exps = walk(bytes, cfg.rx_len, true);
    with(|w| {
        w.raw_instead_of_connack = Some(bytes.to_vec());
        w.raw_mode = true;
        *w.stats.probes.entry("bytes_case").or_insert(0) += 1;
        w.trace_hash = crate::util::mix(w.trace_hash, crate::util::fnv(bytes));
    });
    with_session(&cfg, |session| {
        let r = match do_connect(session, false) {
            ConnectOutcome::Up(_c) => {
                with(|w| close_conn(w, "bytes: connected"));
                Res::Ok
            }
            ConnectOutcome::Failed(r) => r,
        };
        with(|w| w.expect = None);
        let kind = describe(bytes);
        match exps.first() {
            None | Some(Exp::InvalidOrEof) => {
                if !matches!(r, Res::Disconnected | Res::InvalidPacket) {
                    with(|w| w.violate("C08", format!("handshake-truncated-result/{}", r.name()), format!("handshake answered with {} then EOF: connect returned {}", crate::util::hex(bytes), r.name())));
                }
            }
            Some(Exp::Invalid(class)) => {
                if r != Res::InvalidPacket {
                    with(|w| w.violate("C08", format!("handshake-malformed-accepted/{class}/type={kind}/{}", r.name()), format!("malformed ({class}) handshake answer {}: connect returned {}", crate::util::hex(bytes), r.name())));
                    if class == "larger-than-rx-buffer" {
                        with(|w| w.violate("C14", format!("inbound-larger-than-receive-buffer/{}", r.name()), format!("an inbound packet exceeds the {} byte receive buffer during the handshake, connect returned {}", cfg.rx_len, r.name())));
                    }
                }
            }
            Some(Exp::BrokerDisconnect) => {
                if r != Res::Disconnected {
                    with(|w| w.violate("C08", format!("handshake-disconnect-result/{}", r.name()), format!("DISCONNECT during handshake: connect returned {}", r.name())));
                }
            }
            _ => with(|w| w.probe("bytes_outcome_left_open")),
        }
        // a later connect() must work
        with(|w| {
            w.raw_mode = false;
            w.session_ambiguous = true;
        });
        run::final_phase(session, false);
    });
}

fn enum_bytes(k: u64) -> Vec<u8> {
    if k == 0 {
        vec![]
    } else if k - 1 < 256 {
        vec![(k - 1) as u8]
    } else if k - 257 < 65536 {
        let v = k - 257;
        vec![(v >> 8) as u8, v as u8]
    } else {
        let v = k - 257 - 65536;
        vec![(v >> 16) as u8, (v >> 8) as u8, v as u8]
    }
}

const LEN_FORMS: [&[u8]; 14] = [
    &[0x00],
    &[0x01],
    &[0x02],
    &[0x03],
    &[0x04],
    &[0x0A],
    &[0x7F],
    &[0x80, 0x01],
    &[0x80, 0x00],
    &[0xFF, 0x7F],
    &[0x80, 0x80, 0x01],
    &[0xFF, 0xFF, 0xFF, 0x7F],
    &[0xFF, 0xFF, 0xFF, 0xFF, 0x01],
    &[0x80, 0x80, 0x80, 0x00],
];

fn header_form(i: u64) -> (Vec<u8>, bool) {
    let first = (i % 256) as u8;
    let form = LEN_FORMS[((i / 256) % 14) as usize];
    let body_kind = (i / (256 * 14)) % 3; // shorter, exact, longer
    let filler = (i / (256 * 14 * 3)) % 2;
    let pre = (i / (256 * 14 * 3 * 2)) % 2 == 1;
    let declared = codec::read_varint(form).map(|(v, _)| v as usize).unwrap_or(0).min(80);
    let n = match body_kind {
        0 => declared.saturating_sub(1),
        1 => declared,
        _ => declared + 1,
    };
    let mut b = vec![first];
    b.extend_from_slice(form);
    for j in 0..n {
        b.push(if filler == 0 { 0 } else { [0x00u8, 0x01, 0x61, 0x00, 0x05, 0x00, 0xFF][j % 7] });
    }
    (b, pre)
}

fn gen_props(w: &mut World, ctx: codec::Ctx) -> Vec<Prop> {
    let mut v: Vec<Prop> = Vec::new();
    let n = w.tape.choose(4);
    for _ in 0..n {
        let id = codec::ALL_PROP_IDS[w.tape.choose(27) as usize];
        if !codec::prop_allowed(id, ctx) || id == 0x23 || id == 0x15 || id == 0x16 {
            continue;
        }
        let s = crate::invalid::samples(id);
        let p = s[w.tape.choose(s.len() as u32) as usize].clone();
        let value_ok = match (&p.val, id) {
            (PVal::Byte(b), 0x01 | 0x25 | 0x28 | 0x29 | 0x2A | 0x24) => *b <= 1,
            (PVal::Var(x), _) => *x >= 1 && *x <= 268_435_455,
            (PVal::U16(x), 0x21) => *x != 0,
            (PVal::U32(x), 0x27) => *x != 0,
            _ => true,
        };
        let multi = id == 0x26 || (id == 0x0B && ctx == codec::Ctx::PublishS2C);
        if value_ok && (multi || !v.iter().any(|q| q.id == id)) {
            v.push(p);
        }
    }
    v
}

fn gen_s2c(w: &mut World, pre: bool) -> Packet {
    let k = if pre { 0 } else { 1 + w.tape.choose(9) };
    let id = 1 + w.tape.choose(5) as u16;
    let reason_ok = [0u8, 0x10][w.tape.choose(2) as usize];
    let opt_reason = |w: &mut World| match w.tape.choose(3) {
        0 => (None, None),
        1 => (Some(reason_ok), None),
        _ => (Some(reason_ok), Some(vec![])),
    };
    match k {
        0 => {
            let props = gen_props(w, codec::Ctx::ConnAck);
            // values with a meaning for the client are kept harmless
            let props = props.into_iter().filter(|p| !matches!(p.id, 0x21 | 0x24 | 0x27 | 0x12 | 0x13)).collect();
            Packet::ConnAck { session_present: false, reason: [0u8, 0, 0, 0x80, 0x87][w.tape.choose(5) as usize], props }
        }
        1 | 2 | 3 => {
            let qos = (k - 1) as u8;
            let props = gen_props(w, codec::Ctx::PublishS2C);
            let n = w.tape.choose(12) as usize;
            Packet::Publish {
                dup: qos > 0 && w.tape.chance(1, 4),
                qos,
                retain: w.tape.chance(1, 2),
                topic: ["a", "in/x", "t/é"][w.tape.choose(3) as usize].to_string(),
                id: if qos > 0 { Some(100 + id) } else { None },
                props,
                payload: (0..n).map(|i| i as u8).collect(),
            }
        }
        4 | 5 | 6 => {
            let (reason, props) = opt_reason(w);
            Packet::Ack { typ: [4u8, 5, 7][(k - 4) as usize], id, reason, props }
        }
        7 => {
            let (reason, props) = opt_reason(w);
            Packet::Ack { typ: 6, id: 200 + id, reason: reason.map(|_| 0), props }
        }
        8 => Packet::SubAck { typ: [9u8, 11][w.tape.choose(2) as usize], id, props: gen_props(w, codec::Ctx::Ack), codes: vec![0; 1 + w.tape.choose(3) as usize] },
        _ => {
            if w.tape.chance(1, 2) {
                Packet::PingResp
            } else {
                let (reason, props) = opt_reason(w);
                Packet::Disconnect { reason: reason.map(|_| 0x8B), props }
            }
        }
    }
}

fn mutate(w: &mut World, mut b: Vec<u8>) -> Vec<u8> {
    match w.tape.choose(11) {
        10 => {
            // zero packet identifier [MQTT-2.2.1-3]: C08 leaves acceptance open, but whatever the
            // client answers must not carry the zero identifier itself (C01)
            let t = b[0] >> 4;
            if b.len() >= 4 && b[1] < 0x80 {
                let at = match t {
                    3 if b[0] & 0x06 != 0 => Some(4 + (((b[2] as usize) << 8) | b[3] as usize)),
                    4 | 5 | 6 | 7 | 9 | 11 => Some(2),
                    _ => None,
                };
                if let Some(at) = at {
                    if at + 1 < b.len() {
                        b[at] = 0;
                        b[at + 1] = 0;
                        w.probe("inbound_zero_packet_id");
                    }
                }
            }
        }
        0 => {
            let i = w.tape.choose(b.len() as u32) as usize;
            b[i] ^= 1 << w.tape.choose(8);
        }
        1 => {
            let n = 1 + w.tape.choose(b.len() as u32) as usize;
            b.truncate(b.len() - n.min(b.len() - 1));
        }
        2 => b.push(w.tape.choose(256) as u8),
        3 => {
            // non-canonical remaining length (only for single-byte lengths)
            if b.len() >= 2 && b[1] < 0x80 {
                let l = b[1];
                b.splice(1..2, [l | 0x80, 0x00]);
            }
        }
        4 => {
            // trailing garbage inside the packet: bump the remaining length and append
            if b.len() >= 2 && b[1] < 0x7E {
                b[1] += 1;
                b.push(0x00);
            }
        }
        5 => b[0] |= 0x06, // QoS 3 for PUBLISH, illegal flags for the others
        6 => b[0] ^= 0x01 << w.tape.choose(4),
        7 => b[0] = (b[0] & 0x0F) | [0x00u8, 0x10, 0x80, 0xA0, 0xC0][w.tape.choose(5) as usize],
        8 => {
            // break UTF-8 in the first string of a PUBLISH
            if b[0] >> 4 == 3 && b.len() > 5 {
                b[4] = 0xFF;
            }
        }
        _ => {
            // shrink the remaining length so that fields run past the packet end
            if b.len() >= 3 && b[1] > 1 && b[1] < 0x80 {
                b[1] -= 1;
                b.pop();
            }
        }
    }
    b
}

fn noncanonical_property_length(w: &mut World, pre: bool) -> Vec<u8> {
    // properties: user properties, 10 .. 300 bytes in total
    let want = [10usize, 60, 120, 130, 200, 300][w.tape.choose(6) as usize];
    let mut props = Vec::new();
    let mut len = 0;
    let mut i = 0;
    while len < want {
        let v = "v".repeat(20);
        let p = Prop { id: 0x26, val: PVal::Pair(format!("k{i}"), v) };
        let mut b = Vec::new();
        codec::encode_prop(&p, &mut b);
        len += b.len();
        props.push(p);
        i += 1;
    }
    let mut block = Vec::new();
    for p in &props {
        codec::encode_prop(p, &mut block);
    }
    // canonical varint plus one or two redundant zero groups
    let mut lenbytes = Vec::new();
    codec::write_varint(block.len() as u32, &mut lenbytes);
    let extra_groups = 1 + w.tape.choose(2) as usize;
    if lenbytes.len() + extra_groups <= 4 {
        let last = lenbytes.len() - 1;
        lenbytes[last] |= 0x80;
        for g in 0..extra_groups {
            lenbytes.push(if g + 1 == extra_groups { 0x00 } else { 0x80 });
        }
    }
    let mut body = Vec::new();
    let first;
    if pre {
        first = 0x20u8;
        body.push(0); // flags
        body.push(0); // success
    } else {
        first = 0x30u8;
        body.extend_from_slice(&[0x00, 0x01, b'a']);
    }
    body.extend_from_slice(&lenbytes);
    body.extend_from_slice(&block);
    if !pre {
        body.extend_from_slice(b"xyz");
    }
    let mut out = vec![first];
    codec::write_varint(body.len() as u32, &mut out);
    out.extend_from_slice(&body);
    out
}

/// A spec-valid QoS 0 PUBLISH (or, before CONNACK, any packet) whose total size is the receive
/// buffer size plus d, d in -3..=6: the last ones that fit and the first ones that do not.
fn receive_buffer_boundary(w: &mut World) -> Option<Vec<u8>> {
    let rx = w.cfg.rx_len;
    let d = w.tape.choose(10) as i64 - 3;
    let total = (rx as i64 + d) as usize;
    // total = 1 + len(varint(rl)) + rl
    let rl = (1..=4usize).find_map(|vl| {
        let rl = total.checked_sub(1 + vl)?;
        let mut b = Vec::new();
        codec::write_varint(rl as u32, &mut b);
        (b.len() == vl).then_some(rl)
    })?;
    let topic = "in/b";
    let payload_len = rl.checked_sub(2 + topic.len() + 1)?;
    let p = Packet::Publish { dup: false, qos: 0, retain: w.tape.chance(1, 2), topic: topic.into(), id: None, props: vec![], payload: (0..payload_len).map(|i| (i % 251) as u8).collect() };
    let raw = codec::encode(&p);
    debug_assert_eq!(raw.len(), total);
    w.probe(if total > rx { "inbound_just_over_rx_buffer" } else { "inbound_just_fits_rx_buffer" });
    Some(raw)
}

pub fn bytes(kind: u8, extra: u64) {
    match kind {
        3 => {
            let pre = with(|w| w.tape.chance(1, 4));
            let Some(mut stream) = with(receive_buffer_boundary) else { return };
            if !pre && with(|w| w.tape.chance(1, 2)) {
                // something valid behind it: must be untouched if the first one is rejected
                let p = with(|w| gen_s2c(w, false));
                let extra_raw = codec::encode(&p);
                if extra_raw.len() <= with(|w| w.cfg.rx_len) {
                    stream.extend(extra_raw);
                }
            }
            if pre { pre_connack_case(&stream) } else { post_connack_case(&stream) }
        }
        0 => {
            let pre = extra % 2 == 1;
            let b = enum_bytes(extra / 2);
            if pre { pre_connack_case(&b) } else { post_connack_case(&b) }
        }
        2 => {
            let (b, pre) = header_form(extra);
            if pre { pre_connack_case(&b) } else { post_connack_case(&b) }
        }
        _ => {
            let pre = with(|w| w.tape.chance(1, 5));
            if with(|w| w.tape.chance(1, 6)) {
                // a well-formed PUBLISH / CONNACK whose *property length* is encoded
                // non-canonically (trailing zero group), for lengths below and above 127
                let stream = with(|w| noncanonical_property_length(w, pre));
                with(|w| w.probe("bytes_noncanonical_property_length"));
                if pre { pre_connack_case(&stream) } else { post_connack_case(&stream) }
                return;
            }
            let n = if pre { 1 } else { 1 + with(|w| w.tape.choose(3)) };
            let mut stream = Vec::new();
            for _ in 0..n {
                let p = with(|w| gen_s2c(w, pre));
                let mut raw = codec::encode(&p);
                if with(|w| w.tape.chance(1, 2)) {
                    raw = with(|w| mutate(w, raw));
                    with(|w| w.probe("bytes_mutated"));
                }
                stream.extend(raw);
            }
            if pre { pre_connack_case(&stream) } else { post_connack_case(&stream) }
        }
    }
    let _ = world::IO_CALLS_PER_POLL_LIMIT;
}
