//! PRNG, choice tape, hashing. No ambient nondeterminism lives here.

pub fn splitmix64(x: &mut u64) -> u64 {
    *x = x.wrapping_add(0x9E37_79B9_7F4A_7C15);
    let mut z = *x;
    z = (z ^ (z >> 30)).wrapping_mul(0xBF58_476D_1CE4_E5B9);
    z = (z ^ (z >> 27)).wrapping_mul(0x94D0_49BB_1331_11EB);
    z ^ (z >> 31)
}

pub fn mix(a: u64, b: u64) -> u64 {
    let mut s = a ^ b.wrapping_mul(0xD6E8_FEB8_6659_FD93);
    splitmix64(&mut s)
}

pub fn fnv(bytes: &[u8]) -> u64 {
    let mut h: u64 = 0xcbf2_9ce4_8422_2325;
    for b in bytes {
        h ^= *b as u64;
        h = h.wrapping_mul(0x0000_0100_0000_01B3);
    }
    h
}

#[derive(Clone)]
pub struct Rng {
    s: [u64; 4],
}

impl Rng {
    pub fn new(seed: u64) -> Self {
        let mut x = seed;
        let s = [
            splitmix64(&mut x),
            splitmix64(&mut x),
            splitmix64(&mut x),
            splitmix64(&mut x),
        ];
        Self { s }
    }
    pub fn next(&mut self) -> u64 {
        // xoshiro256**
        let r = self.s[1].wrapping_mul(5).rotate_left(7).wrapping_mul(9);
        let t = self.s[1] << 17;
        self.s[2] ^= self.s[0];
        self.s[3] ^= self.s[1];
        self.s[1] ^= self.s[2];
        self.s[0] ^= self.s[3];
        self.s[2] ^= t;
        self.s[3] = self.s[3].rotate_left(45);
        r
    }
    pub fn below(&mut self, n: u64) -> u64 {
        if n <= 1 { 0 } else { self.next() % n }
    }
}

/// The choice tape. Generation mode draws from the PRNG and records; replay mode reads the
/// recorded values (exhausted tape => 0 = the benign choice).
pub struct Tape {
    pub rng: Option<Rng>,
    pub vals: Vec<u32>,
    pub pos: usize,
    /// Seed of the schedule-independent entity streams (0 => every entity choice is 0).
    pub entity_seed: u64,
}

impl Tape {
    pub fn generate(seed: u64) -> Self {
        Self {
            rng: Some(Rng::new(seed)),
            vals: Vec::new(),
            pos: 0,
            entity_seed: mix(seed, 0xE171),
        }
    }
    pub fn replay(vals: Vec<u32>, entity_seed: u64) -> Self {
        Self {
            rng: None,
            vals,
            pos: 0,
            entity_seed,
        }
    }
    /// Uniform choice in 0..n.
    pub fn choose(&mut self, n: u32) -> u32 {
        if n <= 1 {
            return 0;
        }
        match &mut self.rng {
            Some(rng) => {
                let v = rng.below(n as u64) as u32;
                self.vals.push(v);
                self.pos += 1;
                v
            }
            None => {
                let v = self.vals.get(self.pos).copied().unwrap_or(0);
                self.pos += 1;
                if v >= n { v % n } else { v }
            }
        }
    }
    /// Weighted choice; index 0 should be the benign alternative.
    pub fn weighted(&mut self, weights: &[u32]) -> usize {
        let total: u32 = weights.iter().sum();
        if total == 0 {
            return 0;
        }
        match &mut self.rng {
            Some(rng) => {
                let mut r = rng.below(total as u64) as u32;
                let mut idx = 0;
                for (i, w) in weights.iter().enumerate() {
                    if r < *w {
                        idx = i;
                        break;
                    }
                    r -= *w;
                }
                self.vals.push(idx as u32);
                self.pos += 1;
                idx
            }
            None => {
                let v = self.vals.get(self.pos).copied().unwrap_or(0) as usize;
                self.pos += 1;
                let mut v = if v >= weights.len() { v % weights.len() } else { v };
                // A replayed index must still be an enabled alternative.
                if weights[v] == 0 {
                    v = weights.iter().position(|w| *w != 0).unwrap_or(0);
                }
                v
            }
        }
    }
    /// true with probability num/den. false is the benign value.
    pub fn chance(&mut self, num: u32, den: u32) -> bool {
        if num == 0 {
            return false;
        }
        self.weighted(&[den.saturating_sub(num), num]) == 1
    }
    /// Schedule-independent choice for an entity (pure function of entity_seed, tag, label).
    pub fn entity(&self, tag: u64, label: u64, n: u32) -> u32 {
        if n <= 1 || self.entity_seed == 0 {
            return 0;
        }
        (mix(mix(self.entity_seed, tag), label) % n as u64) as u32
    }
}

pub fn hex(bytes: &[u8]) -> String {
    let mut s = String::with_capacity(bytes.len() * 2);
    for b in bytes.iter().take(96) {
        s.push_str(&format!("{:02x}", b));
    }
    if bytes.len() > 96 {
        s.push_str(&format!("..(+{})", bytes.len() - 96));
    }
    s
}
