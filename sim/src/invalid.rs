//! C19: invalid requests are refused locally and leave no trace; legal ones are not refused as
//! invalid. The legality table is written from MQTT 5.0 (table 2-4 and sections 3.3.2.3,
//! 3.8.2.1, 3.10.2.1, 3.14.2.2, 3.1.3.2), independently of minimq's own table.

use crate::app::*;
use crate::codec::{PKind, PVal, Packet, Prop, SubFilter, prop_kind, ALL_PROP_IDS};
use crate::world::{with, World};
use minimq::{Property, QoS};

#[derive(Copy, Clone, Debug, PartialEq, Eq)]
pub enum ReqCtx {
    Publish,
    Subscribe,
    Unsubscribe,
    Disconnect,
    Will,
}

#[derive(Copy, Clone, Debug, PartialEq, Eq)]
pub enum Legal {
    Yes,
    No,
    /// MQTT 5 is ambiguous or the decision depends on negotiated state: left open
    Open,
}

/// May a *client* attach property `p` (with this value) to this packet / to the will?
pub fn legal(ctx: ReqCtx, p: &Prop) -> Legal {
    let id = p.id;
    let value_ok = match (&p.val, id) {
        (PVal::Byte(v), 0x01 | 0x17 | 0x19 | 0x25 | 0x28 | 0x29 | 0x2A) => *v <= 1,
        (PVal::Byte(v), 0x24) => *v <= 1,
        (PVal::Var(v), 0x0B) => *v >= 1 && *v <= 268_435_455,
        (PVal::U16(v), 0x21 | 0x23) => *v != 0,
        (PVal::U32(v), 0x27) => *v != 0,
        // a string or binary field longer than 65535 bytes cannot be encoded at all
        (PVal::Str(v), _) => v.len() <= 65535,
        (PVal::Bin(v), _) => v.len() <= 65535,
        (PVal::Pair(k, v), _) => k.len() <= 65535 && v.len() <= 65535,
        _ => true,
    };
    let allowed = match ctx {
        ReqCtx::Publish => match id {
            0x01 | 0x02 | 0x03 | 0x08 | 0x09 | 0x26 => Legal::Yes,
            0x23 => Legal::Open, // Topic Alias: legal only if the broker announced a Topic Alias Maximum
            _ => Legal::No,
        },
        ReqCtx::Subscribe => match id {
            0x0B | 0x26 => Legal::Yes,
            _ => Legal::No,
        },
        ReqCtx::Unsubscribe => match id {
            0x26 => Legal::Yes,
            _ => Legal::No,
        },
        ReqCtx::Disconnect => match id {
            0x11 | 0x1F | 0x26 => Legal::Yes,
            0x1C => Legal::Open, // Server Reference: table 2-4 lists DISCONNECT, 3.14.2.2.5 says "Server"
            _ => Legal::No,
        },
        ReqCtx::Will => match id {
            0x18 | 0x01 | 0x02 | 0x03 | 0x08 | 0x09 | 0x26 => Legal::Yes,
            _ => Legal::No,
        },
    };
    match allowed {
        Legal::Yes if !value_ok => Legal::No,
        // Topic Alias 0 is never permitted [MQTT-3.3.2-8], whatever the broker's maximum
        Legal::Open if !value_ok && id == 0x23 => Legal::No,
        // an illegal value in a property that is not allowed anyway stays illegal
        other => other,
    }
}

/// Sample values (boundary values first) for a property identifier.
pub fn samples(id: u8) -> Vec<Prop> {
    let mk = |val| Prop { id, val };
    match prop_kind(id).unwrap() {
        PKind::Byte => vec![mk(PVal::Byte(0)), mk(PVal::Byte(1)), mk(PVal::Byte(2)), mk(PVal::Byte(255))],
        PKind::U16 => vec![mk(PVal::U16(1)), mk(PVal::U16(65535)), mk(PVal::U16(0))],
        PKind::U32 => vec![mk(PVal::U32(0)), mk(PVal::U32(1)), mk(PVal::U32(u32::MAX))],
        PKind::Var => vec![
            mk(PVal::Var(1)),
            mk(PVal::Var(268_435_455)),
            mk(PVal::Var(0)),
            mk(PVal::Var(268_435_456)),
            mk(PVal::Var(127)),
            mk(PVal::Var(128)),
            mk(PVal::Var(16_383)),
            mk(PVal::Var(16_384)),
            mk(PVal::Var(2_097_151)),
            mk(PVal::Var(2_097_152)),
            mk(PVal::Var(268_435_457)),
            mk(PVal::Var(0x1234_5678)),
            mk(PVal::Var(0x8000_0000)),
            mk(PVal::Var(u32::MAX)),
        ],
        PKind::Str => vec![mk(PVal::Str("s".into())), mk(PVal::Str(String::new()))],
        PKind::Bin => vec![mk(PVal::Bin(vec![1, 2])), mk(PVal::Bin(vec![]))],
        PKind::Pair => vec![mk(PVal::Pair("k".into(), "v".into())), mk(PVal::Pair(String::new(), String::new()))],
    }
}

/// A field longer than 65535 bytes: not encodable. minimq notices it only while encoding, after
/// it has drained older outbound work and checked its resources, so neither the error kind nor
/// quiescence is pinned for such a request - only that it is refused, leaves nothing on the wire
/// and does not change what the session accepts next.
fn overlong(p: &Prop) -> bool {
    match &p.val {
        PVal::Str(v) => v.len() > 65535,
        PVal::Bin(v) => v.len() > 65535,
        PVal::Pair(k, v) => k.len() > 65535 || v.len() > 65535,
        _ => false,
    }
}

/// Legal companions for the probed property: 0-3 further properties MQTT 5 lets a client attach
/// to this packet, with legal values - among them, for a third of them, the *same* property as
/// the probe with a legal value. Returns the whole list (probe at a random position) and whether
/// a property other than User Property now occurs twice (MQTT calls that a protocol error, the
/// crate does not check it: a probe that is legal by itself is then left open).
fn with_companions(w: &mut World, ctx: ReqCtx, probe: &Prop) -> (Vec<Prop>, bool) {
    let pool: &[u8] = match ctx {
        ReqCtx::Publish | ReqCtx::Will => &[0x01, 0x02, 0x03, 0x08, 0x09, 0x26],
        ReqCtx::Subscribe => &[0x0B, 0x26],
        ReqCtx::Unsubscribe => &[0x26],
        ReqCtx::Disconnect => &[0x11, 0x1F, 0x26],
    };
    let n = [0u32, 0, 0, 1, 1, 2, 3][w.tape.choose(7) as usize];
    let mut list: Vec<Prop> = Vec::new();
    for _ in 0..n {
        let same = w.tape.chance(1, 3);
        let id = if same { probe.id } else { pool[w.tape.choose(pool.len() as u32) as usize] };
        // no property but User Property may occur twice - except in front of (or behind) a probe
        // that makes the request illegal anyway, so that nothing of it ever reaches the wire
        if id != 0x26 && (list.iter().any(|c| c.id == id) || (id == probe.id && legal(ctx, probe) != Legal::No)) {
            continue;
        }
        let cands: Vec<Prop> = samples(id).into_iter().filter(|c| legal(ctx, c) == Legal::Yes).collect();
        if cands.is_empty() {
            continue;
        }
        list.push(cands[w.tape.choose(cands.len() as u32) as usize].clone());
    }
    if !list.is_empty() {
        w.probe("invalid_probe_with_companion_properties");
    }
    let at = w.tape.choose(list.len() as u32 + 1) as usize;
    list.insert(at, probe.clone());
    let mut dup = false;
    for (i, a) in list.iter().enumerate() {
        if a.id != 0x26 && list[..i].iter().any(|b| b.id == a.id) {
            dup = true;
        }
    }
    if dup && at > 0 && list[..at].iter().any(|b| b.id == probe.id) {
        w.probe("invalid_probe_after_legal_property_of_the_same_kind");
    }
    (list, dup)
}

fn ctx_name(c: ReqCtx) -> &'static str {
    match c {
        ReqCtx::Publish => "publish",
        ReqCtx::Subscribe => "subscribe",
        ReqCtx::Unsubscribe => "unsubscribe",
        ReqCtx::Disconnect => "disconnect",
        ReqCtx::Will => "will",
    }
}

fn judge(w: &mut World, ctx: ReqCtx, p: &Prop, res: &Res, live: bool, dup: bool) {
    if !live {
        return;
    }
    let l = match legal(ctx, p) {
        Legal::Yes if dup => Legal::Open,
        other => other,
    };
    if *res == Res::InvalidRequest {
        let cur = w.cur;
        w.conns[cur].refused_since_last_complete = true;
    }
    *w.stats.probes.entry("invalid_probe_evaluated").or_insert(0) += 1;
    match l {
        Legal::No => {
            // refused for an earlier, unrelated reason (older outbound work failed, cancelled
            // before validation) is fine; being accepted is not
            if ctx != ReqCtx::Disconnect {
                if let Some(r) = w.reqs.last_mut() {
                    r.must_refuse = true;
                }
            }
            if matches!(res, Res::Ok | Res::OkOp) {
                w.violate_force(
                    "C19",
                    format!("illegal-accepted/{}/prop={:#04x}", ctx_name(ctx), p.id),
                    format!("{} with illegal property {:?} returned {} instead of InvalidRequest", ctx_name(ctx), p, res.name()),
                );
            }
            // "rejected with the documented error": running out of some resource is not the
            // answer to a request that is invalid whatever the resources. (Failures of *older*
            // outbound work - transport errors, a too large older packet - and cancellations
            // may come first and are not judged.)
            let resource = match ctx {
                ReqCtx::Publish => matches!(res, Res::NotReady | Res::BufferTooSmall),
                _ => matches!(res, Res::NotReady | Res::BufferTooSmall | Res::InflightExhausted),
            };
            if resource && !overlong(p) {
                w.violate_force(
                    "C19",
                    format!("illegal-refused-with-resource-error/{}/{}", ctx_name(ctx), res.name()),
                    format!("{} with illegal property {:?} returned {} instead of InvalidRequest", ctx_name(ctx), p, res.name()),
                );
            }
        }
        Legal::Yes => {
            // DISCONNECT is encoded into a fixed control buffer that no application-supplied
            // buffer can enlarge: running out of *that* is not the resource answer every request
            // may get - the property is never accepted, whatever the configuration
            if ctx == ReqCtx::Disconnect && *res == Res::BufferTooSmall && !overlong(p) {
                w.violate_force(
                    "C19",
                    "legal-refused/disconnect/BufferTooSmall-from-the-fixed-control-buffer".into(),
                    format!("disconnect_with carrying the legal property {:?} was refused with BufferTooSmall", p),
                );
            }
            if *res == Res::InvalidRequest {
                w.violate_force(
                    "C19",
                    format!("legal-refused/{}/prop={:#04x}", ctx_name(ctx), p.id),
                    format!("{} with legal property {:?} was refused as InvalidRequest", ctx_name(ctx), p),
                );
            }
        }
        Legal::Open => {}
    }
}

/// One invalid-or-boundary request at a random point of a run. Returns the operation result so
/// that the caller can treat fatal results as usual.
pub fn invalid_probe(conn: &mut Conn<'_, '_>) -> Res {
    let (which, prop) = with(|w| {
        w.probe("invalid_request_probe");
        let which = w.tape.choose(6);
        let id = ALL_PROP_IDS[w.tape.choose(27) as usize];
        let s = samples(id);
        let mut p = s[w.tape.choose(s.len() as u32) as usize].clone();
        // one probe in eight carries a field that is one byte too long to be encoded: an
        // illegal value of an otherwise legal property, noticed only while encoding
        if w.tape.chance(1, 8) {
            p.val = match &p.val {
                PVal::Str(_) => PVal::Str("s".repeat(65_536)),
                PVal::Bin(_) => PVal::Bin(vec![0xB1; 65_536]),
                PVal::Pair(k, _) => PVal::Pair(k.clone(), "v".repeat(65_536)),
                other => other.clone(),
            };
            w.probe("invalid_probe_overlong_field");
        }
        (which, p)
    });
    let conn_live = conn.is_connected() && !with(|w| w.cut);
    // with a long keep-alive the application sometimes waits before and after the probe: the
    // keep-alive traffic must come as if the refused request had never been made
    let around = with(|w| {
        let k = crate::broker::keepalive_eff(w, w.cur).unwrap_or(0) as u64;
        if conn_live && k >= 11 && which <= 3 && w.tape.chance(1, 3) {
            w.probe("invalid_probe_between_two_waits");
            Some((5 + 1 + w.tape.choose((k - 10) as u32) as u64, k + 1))
        } else {
            None
        }
    });
    if let Some((before, _)) = around {
        let opts = ExecOpts { cancellable: true, idle_cancel: true, budget_us: Some(before * crate::clock::US_PER_S), timer_is_idle: false };
        let r = do_wait(conn, Wait::Poll, Some(opts));
        if r.is_fatal() || !conn.is_connected() {
            return r;
        }
    }
    // (a run that was cut before this probe is not judged; one that is cut *by* this probe's own
    // packet - the reference decoder rejecting what was sent - still is)
    let live = conn.is_connected() && !with(|w| w.cut);
    let snapshot = (
        conn.session().is_publish_quiescent(),
        conn.can_publish(QoS::AtMostOnce),
        conn.can_publish(QoS::AtLeastOnce),
        conn.can_publish(QoS::ExactlyOnce),
    );
    let res = match which {
        0 | 1 => {
            // publish with one extra (possibly illegal) property
            let mut spec = with(|w| {
                let q = w.tape.choose(3) as u8;
                gen_publish(w, q)
            });
            // the probe is about the property: the rest of the request must be encodable
            if spec.topic.len() > 65_535 {
                spec.topic.truncate(40);
            }
            let (list, dup) = with(|w| with_companions(w, ReqCtx::Publish, &prop));
            spec.props = list;
            // a third of the probes also carry builder-attached correlation data (the typed
            // request/reply path validates through a different representation)
            spec.correlate = if !spec.props.iter().any(|p| p.id == 0x09) && with(|w| w.tape.chance(1, 3)) {
                with(|w| w.probe("invalid_probe_with_builder_correlation"));
                Some(vec![0xC0, 0xDA])
            } else {
                None
            };
            spec.payload_fails = false;
            let r = do_publish(conn, &spec);
            with(|w| {
                w.reqs.last_mut().unwrap().is_probe = true;
                judge(w, ReqCtx::Publish, &prop, &r, live, dup)
            });
            r
        }
        2 => {
            let mut spec = with(gen_subscribe);
            let (list, dup) = with(|w| with_companions(w, ReqCtx::Subscribe, &prop));
            spec.props = list;
            let r = do_subscribe(conn, &spec);
            with(|w| {
                w.reqs.last_mut().unwrap().is_probe = true;
                judge(w, ReqCtx::Subscribe, &prop, &r, live, dup)
            });
            r
        }
        3 => {
            let mut spec = with(gen_unsubscribe);
            let (list, dup) = with(|w| with_companions(w, ReqCtx::Unsubscribe, &prop));
            spec.props = list;
            let r = do_unsubscribe(conn, &spec);
            with(|w| {
                w.reqs.last_mut().unwrap().is_probe = true;
                judge(w, ReqCtx::Unsubscribe, &prop, &r, live, dup)
            });
            r
        }
        4 => {
            // empty filter lists
            let r = if with(|w| w.tape.chance(1, 2)) {
                let mut spec = with(gen_subscribe);
                spec.filters = Vec::<SubFilter>::new();
                spec.props.clear();
                // the ledger cannot attribute a packet without filters; register with a dummy filter
                let r = do_subscribe_empty(conn);
                let _ = spec;
                r
            } else {
                do_unsubscribe_empty(conn)
            };
            with(|w| {
                if live && r != Res::InvalidRequest {
                    w.violate(
                        "C19",
                        "empty-filter-list-accepted".into(),
                        format!("(un)subscribe with an empty filter list returned {}", r.name()),
                    );
                }
            });
            r
        }
        _ => {
            // disconnect with an illegal property must be refused and must not disconnect
            if legal(ReqCtx::Disconnect, &prop) != Legal::No {
                return Res::OkNone;
            }
            let (list, dup) = with(|w| with_companions(w, ReqCtx::Disconnect, &prop));
            let r = do_disconnect(conn, &DiscSpec { reason: Some(0), props: Some(list) });
            with(|w| {
                w.disconnect_expected = None;
                judge(w, ReqCtx::Disconnect, &prop, &r, live, dup)
            });
            if r == Res::InvalidRequest && live && !conn.is_connected() {
                with(|w| w.violate("C19", "refused-disconnect-killed-handle".into(), "a refused disconnect left the handle dead".into()));
            }
            r
        }
    };
    let refused = matches!(res, Res::InvalidRequest | Res::BufferTooSmall | Res::NotReady | Res::InflightExhausted | Res::PacketTooLarge);
    if live && conn.is_connected() && refused {
        let after = (
            conn.session().is_publish_quiescent(),
            conn.can_publish(QoS::AtMostOnce),
            conn.can_publish(QoS::AtLeastOnce),
            conn.can_publish(QoS::ExactlyOnce),
        );
        // publish() drains older outbound work before it validates, and so does every request
        // whose defect is noticed only while encoding (over-long field): that may legitimately
        // change quiescence. What the session accepts next must not change in any case.
        let quiescence_pinned = which >= 2 && res == Res::InvalidRequest && !overlong(&prop);
        let changed = if quiescence_pinned { after != snapshot } else { (after.1, after.2, after.3) != (snapshot.1, snapshot.2, snapshot.3) };
        if changed {
            with(|w| {
                w.violate(
                    "C19",
                    "refused-request-changed-state".into(),
                    format!("quiescence/can_publish changed from {:?} to {:?} across a request refused with {}", snapshot, after, res.name()),
                )
            });
        }
    }
    if let (Some((_, after_s)), true) = (around, conn.is_connected() && !res.is_fatal() && !with(|w| w.qos0_cancelled)) {
        let opts = ExecOpts { cancellable: true, idle_cancel: true, budget_us: Some(after_s * crate::clock::US_PER_S), timer_is_idle: false };
        let r = do_wait(conn, Wait::Poll, Some(opts));
        if r.is_fatal() || !conn.is_connected() {
            return r;
        }
    }
    res
}

fn do_subscribe_empty(conn: &mut Conn<'_, '_>) -> Res {
    with(|w| {
        w.op_label = "subscribe";
        w.offered_now.clear();
    });
    let opts = ExecOpts { cancellable: false, idle_cancel: true, budget_us: None, timer_is_idle: false };
    let r = match exec(conn.subscribe(&[], &[]), opts) {
        None => Res::Cancelled,
        Some(Ok(_)) => Res::OkOp,
        Some(Err(e)) => map_err(e),
    };
    r
}

fn do_unsubscribe_empty(conn: &mut Conn<'_, '_>) -> Res {
    with(|w| {
        w.op_label = "unsubscribe";
        w.offered_now.clear();
    });
    let opts = ExecOpts { cancellable: false, idle_cancel: true, budget_us: None, timer_is_idle: false };
    let r = match exec(conn.unsubscribe(&[], &[]), opts) {
        None => Res::Cancelled,
        Some(Ok(_)) => Res::OkOp,
        Some(Err(e)) => map_err(e),
    };
    r
}

/// The will half of the table: a pure function of the property, evaluated once per run.
pub fn will_table(w: &mut World) {
    for id in ALL_PROP_IDS {
        for p in samples(id) {
            let mp: [Property<'_>; 1] = [to_minimq(&p)];
            let r = minimq::Will::new("w", b"x", &mp);
            *w.stats.probes.entry("will_table_entry").or_insert(0) += 1;
            match (legal(ReqCtx::Will, &p), r.is_ok()) {
                (Legal::Yes, false) => w.violate(
                    "C19",
                    format!("legal-refused/will/prop={:#04x}", p.id),
                    format!("Will::new refused the legal will property {:?}", p),
                ),
                (Legal::No, true) => w.violate(
                    "C19",
                    format!("illegal-accepted/will/prop={:#04x}", p.id),
                    format!("Will::new accepted the illegal will property {:?}", p),
                ),
                _ => {}
            }
        }
    }
    // lists: an illegal property stays illegal wherever it stands and whatever stands before it
    // (a pure function as well: evaluated in one run in eight)
    let lists = w.tape.chance(1, 8);
    for id in ALL_PROP_IDS {
        if !lists {
            break;
        }
        for p in samples(id) {
            if legal(ReqCtx::Will, &p) != Legal::No {
                continue;
            }
            let mut firsts: Vec<Prop> = vec![Prop { id: 0x26, val: PVal::Pair("k".into(), "v".into()) }, Prop { id: 0x03, val: PVal::Str("text/plain".into()) }];
            firsts.extend(samples(id).into_iter().filter(|c| legal(ReqCtx::Will, c) == Legal::Yes).take(1));
            for f in firsts {
                for order in 0..2 {
                    let list = if order == 0 { [f.clone(), p.clone()] } else { [p.clone(), f.clone()] };
                    let mp: [Property<'_>; 2] = [to_minimq(&list[0]), to_minimq(&list[1])];
                    *w.stats.probes.entry("will_table_list_entry").or_insert(0) += 1;
                    if minimq::Will::new("w", b"x", &mp).is_ok() {
                        w.violate(
                            "C19",
                            format!("illegal-accepted/will/prop={:#04x}", p.id),
                            format!("Will::new accepted the property list {:?} although {:?} is illegal in a will", list, p),
                        );
                    }
                }
            }
        }
    }
    let _ = Packet::PingReq;
}

/// One table entry (C19): issue a request of kind `ctx` carrying exactly `prop`.
pub fn forced_probe(conn: &mut Conn<'_, '_>, ctx: ReqCtx, prop: &Prop) -> Res {
    // (a run that was cut before this probe is not judged; one that is cut *by* this probe's own
    // packet - the reference decoder rejecting what was sent - still is)
    let live = conn.is_connected() && !with(|w| w.cut);
    let snapshot = (conn.session().is_publish_quiescent(), conn.can_publish(QoS::AtLeastOnce));
    let res = match ctx {
        ReqCtx::Publish => {
            let mut spec = with(|w| {
                let q = w.tape.choose(3) as u8;
                gen_publish(w, q)
            });
            // the probe is about the property: the rest of the request must be encodable
            if spec.topic.len() > 65_535 {
                spec.topic.truncate(40);
            }
            spec.props = vec![prop.clone()];
            // a third of the probes also carry builder-attached correlation data (the typed
            // request/reply path validates through a different representation)
            spec.correlate = if prop.id != 0x09 && with(|w| w.tape.chance(1, 3)) {
                with(|w| w.probe("invalid_probe_with_builder_correlation"));
                Some(vec![0xC0, 0xDA])
            } else {
                None
            };
            spec.payload_fails = false;
            let r = do_publish(conn, &spec);
            with(|w| {
                w.reqs.last_mut().unwrap().is_probe = true;
                judge(w, ctx, prop, &r, live, false)
            });
            r
        }
        ReqCtx::Subscribe => {
            let mut spec = with(gen_subscribe);
            spec.props = vec![prop.clone()];
            let r = do_subscribe(conn, &spec);
            with(|w| {
                w.reqs.last_mut().unwrap().is_probe = true;
                judge(w, ctx, prop, &r, live, false)
            });
            r
        }
        ReqCtx::Unsubscribe => {
            let mut spec = with(gen_unsubscribe);
            spec.props = vec![prop.clone()];
            let r = do_unsubscribe(conn, &spec);
            with(|w| {
                w.reqs.last_mut().unwrap().is_probe = true;
                judge(w, ctx, prop, &r, live, false)
            });
            r
        }
        ReqCtx::Disconnect | ReqCtx::Will => {
            if legal(ReqCtx::Disconnect, prop) == Legal::Open {
                return Res::OkNone;
            }
            let r = do_disconnect(conn, &DiscSpec { reason: Some(0), props: Some(vec![prop.clone()]) });
            with(|w| {
                if r == Res::InvalidRequest {
                    w.disconnect_expected = None;
                }
                judge(w, ReqCtx::Disconnect, prop, &r, live, false)
            });
            if r == Res::InvalidRequest && live && !conn.is_connected() {
                with(|w| w.violate("C19", "refused-disconnect-killed-handle".into(), "a refused disconnect left the handle dead".into()));
            }
            r
        }
    };
    let refused = matches!(res, Res::InvalidRequest | Res::BufferTooSmall | Res::NotReady | Res::InflightExhausted | Res::PacketTooLarge);
    if live && conn.is_connected() && refused && ctx != ReqCtx::Publish {
        let after = (conn.session().is_publish_quiescent(), conn.can_publish(QoS::AtLeastOnce));
        let quiescence_pinned = res == Res::InvalidRequest && !overlong(prop);
        if if quiescence_pinned { after != snapshot } else { after.1 != snapshot.1 } {
            with(|w| w.violate("C19", "refused-request-changed-state".into(), format!("quiescence/can_publish changed from {:?} to {:?} across a refused request", snapshot, after)));
        }
    }
    res
}
