#!/bin/bash
# usage: survey.sh N  -> aggregated signatures across all program profiles
N=${1:-3000}
cd /verif/sim
for p in General Qos1 Qos2 Inbound Sessions Quota IdWrap Limits Timing Aging Invalid; do
  timeout 600 ./target/release/minimq-sim survey "Program($p)" $N 2>&1 | sed "s/^/$p /"
done > /tmp/survey.out
grep -v "signatures over" /tmp/survey.out | awk '{c=$2; sig=$3; seed=$5; prof=$1; cnt[sig]+=c; if(!(sig in s)){s[sig]=prof" "seed}} END{for(k in cnt) printf "%7d %s   [%s\n", cnt[k], k, s[k]}' | sort -k2 
grep "signatures over" /tmp/survey.out | grep -v " 0 harness" 
